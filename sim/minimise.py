"""Minimisation of failing scripts by delta debugging over the decoded program (DESIGN §8).

`minimise(ops, test, budget_s)`: `test(ops) -> bool` must return True iff the candidate
still fails *the same oracle clause* (callers include whatever validity requirement the
profile has, e.g. "the reference model still calls the design well-formed").
Transformations: drop a whole module (with its instances elsewhere), drop an instance,
replace a connection by a fresh plain signal / bundle, drop single ops, drop session ops,
reset set-iteration keys to insertion order (done by the caller through the scenario).
"""
import time
import copy

from . import refmodel
from .refmodel import DESIGN_OPS


def mentions_inst(x, iname):
    if not isinstance(x, list):
        return False
    if x and x[0] == "pr" and x[1] == iname:
        return True
    for sub in x:
        if isinstance(sub, list) and mentions_inst(sub, iname):
            return True
        if isinstance(sub, dict) and any(mentions_inst(v, iname) for v in sub.values()):
            return True
    return False


def mentions_name(x, kind, name):
    """Does expression x mention signal (kind 's') / bundle (kind 'b') `name`?"""
    if not isinstance(x, list):
        return False
    if x and x[0] == kind and x[1] == name:
        return True
    if x and kind == "b" and x[0] == "br" and x[1] == name:
        return True
    for sub in x:
        if isinstance(sub, list) and mentions_name(sub, kind, name):
            return True
        if isinstance(sub, dict) and any(mentions_name(v, kind, name) for v in sub.values()):
            return True
    return False


def op_module(op):
    if op[0] in DESIGN_OPS and op[0] not in ("bundle", "ext"):
        return op[1]
    return None


class Minimiser:
    def __init__(self, ops, test, budget_s=20.0):
        self.ops = copy.deepcopy(ops)
        self.test = test
        self.deadline = time.monotonic() + budget_s
        self.tests = 0
        self.fresh = 0

    def out_of_time(self):
        return time.monotonic() > self.deadline

    def try_(self, cand):
        if self.out_of_time():
            return False
        self.tests += 1
        try:
            ok = self.test(cand)
        except Exception:  # a candidate that breaks the harness is simply not taken
            ok = False
        if ok:
            self.ops = cand
        return ok

    # ------------------------------------------------------------------ passes
    def drop_modules(self):
        changed = False
        mids = sorted({op[1] for op in self.ops if op[0] == "module"}, reverse=True)
        for mid in mids:
            cand = self.without_module(self.ops, mid)
            if cand is not None and len(cand) < len(self.ops) and self.try_(cand):
                changed = True
        return changed

    def without_module(self, ops, mid):
        out = []
        dropped_insts = {}  # module -> set(inst names)
        for op in ops:
            if op_module(op) == mid:
                continue
            if op[0] in ("inst", "arr", "pair", "reinst") and op[3][0] == "mod" and op[3][1] == mid:
                dropped_insts.setdefault(op[1], set()).add(op[2])
                continue
            if op[0] in ("elaborate", "to_proto", "netlist"):
                t = [m for m in op[1] if m != mid]
                if not t:
                    continue
                op = [op[0], t] + list(op[2:])
            if op[0] == "fault" and op[3] == mid:
                continue
            out.append(op)
        return self.scrub_insts(out, dropped_insts)

    def scrub_insts(self, ops, dropped):
        """Remove connection ops of dropped instances; replace references to them."""
        out = []
        ops = [op for op in ops if not (op[0] in ("conn", "disc", "repl") and op[2] in dropped.get(op[1], ()))]
        for op in ops:
            k = op[0]
            if k in ("conn", "repl"):
                x = op[4]
                if any(mentions_inst(x, i) for i in dropped.get(op[1], ())):
                    r = self.fresh_for(ops, op)
                    if r is None:
                        return None
                    pre, x2 = r
                    out += pre
                    op = op[:4] + [x2] + op[5:]
            if k in ("inst", "arr", "pair"):
                ci = 5 if k == "inst" else (6 if k == "arr" else 4)
                conns = op[ci]
                if any(mentions_inst(x, i) for x in conns.values() for i in dropped.get(op[1], ())):
                    return None
            out.append(op)
        return out

    def fresh_for(self, ops, op):
        """(decl ops, X) - a fresh plain signal / bundle fitting the port of conn op `op`."""
        mid, iname, port = op[1], op[2], op[3]
        try:
            d = refmodel.load([o for o in ops if o[0] in DESIGN_OPS and o is not op])
            info = d.mods[mid].insts[iname]
            shape = d.target_ports(info["target"])[port]
        except (KeyError, refmodel.ModelError):
            return None
        self.fresh += 1
        if isinstance(shape, int):
            name = f"zs{self.fresh}"
            return [["sig", mid, name, shape, "i", "n"]], ["s", name]
        name = f"zb{self.fresh}"
        return [["bun", mid, name, shape[1], False, False]], ["b", name]

    def drop_instances(self):
        changed = False
        insts = [(op[1], op[2]) for op in self.ops if op[0] in ("inst", "arr", "pair")]
        for mid, iname in reversed(insts):
            base = [op for op in self.ops if not (op[0] in ("inst", "arr", "pair") and op[1] == mid and op[2] == iname)]
            cand = self.scrub_insts(base, {mid: {iname}})
            if cand is not None and self.try_(cand):
                changed = True
        return changed

    def simplify_conns(self):
        changed = False
        i = 0
        while i < len(self.ops) and not self.out_of_time():
            op = self.ops[i]
            if op[0] in ("conn", "repl") and op[4][0] not in ("s",):
                r = self.fresh_for(self.ops, op)
                if r is not None:
                    pre, x2 = r
                    if not (op[4][0] == "b" and x2[0] == "b"):
                        cand = self.ops[:i] + pre + [op[:4] + [x2] + op[5:]] + self.ops[i + 1 :]
                        if self.try_(cand):
                            changed = True
                            i += len(pre)
            i += 1
        return changed

    def shrink_exprs(self):
        """Replace sub-expressions by their children (e.g. slice-of-X by X is not width
        preserving, so only structure-preserving rewrites: memo unwrap, 1-part concat)."""
        return False

    def drop_single_ops(self):
        changed = False
        i = len(self.ops) - 1
        while i >= 0 and not self.out_of_time():
            op = self.ops[i]
            if op[0] in ("module", "end"):
                i -= 1
                continue
            cand = self.ops[:i] + self.ops[i + 1 :]
            if self.try_(cand):
                changed = True
            i -= 1
        return changed

    def drop_chunks(self):
        """Classic ddmin over contiguous chunks (quickly removes session noise)."""
        changed = False
        n = 2
        while len(self.ops) >= 2 and not self.out_of_time():
            size = max(1, len(self.ops) // n)
            removed = False
            start = 0
            while start < len(self.ops):
                cand = self.ops[:start] + self.ops[start + size :]
                if cand and self.try_(cand):
                    removed = changed = True
                else:
                    start += size
            if removed:
                n = max(n - 1, 2)
            else:
                if size == 1:
                    break
                n = min(n * 2, len(self.ops))
        return changed

    def run(self):
        progress = True
        rounds = 0
        while progress and not self.out_of_time() and rounds < 6:
            rounds += 1
            progress = False
            progress |= self.drop_modules()
            progress |= self.drop_instances()
            progress |= self.simplify_conns()
            progress |= self.drop_single_ops()
        return self.ops


def minimise(ops, test, budget_s=20.0):
    m = Minimiser(ops, test, budget_s)
    out = m.run()
    return out, {"tests": m.tests, "from": len(ops), "to": len(out)}
