"""Reference model of design programs (DESIGN §4).  Imports nothing from hdl21.

`Design` consumes the same design ops as `interp.Interp` and keeps, per module, plain
tables: signals, bundle instances, instances and - the part that matters for C04 - the
*current* port -> expression map of every instance (a dict; "trivial inside").

`judge(design, tops)` classifies a design as well-formed or gives the class of
ill-formedness (the classes of property C02, nothing more).

`flatten(design, top)` gives the meaning of a well-formed design: the leaf devices and
the partition of {leaf terminal bits} U {designer signal bits} into nets.

Rules R1..R11 of DESIGN §4 are marked where implemented.
"""

DIFF = "Diff"  # the built-in differential bundle {p:1, n:1}

PRIM_PORTS = {
    # name -> ordered port list (all width 1)
    "R": ["p", "n"],
    "C": ["p", "n"],
    "L": ["p", "n"],
    "V": ["p", "n"],
    "I": ["p", "n"],
    "Vcvs": ["p", "n", "cp", "cn"],
    "Vccs": ["p", "n", "cp", "cn"],
    "Mos": ["d", "g", "s", "b"],
    "Nmos": ["d", "g", "s", "b"],
    "Pmos": ["d", "g", "s", "b"],
    "Diode": ["p", "n"],
    "Bipolar": ["c", "b", "e"],
    "Res3": ["p", "n", "b"],
    "Cap3": ["p", "n", "b"],
    "PhyRes": ["p", "n"],
    "PhyCap": ["p", "n"],
    "Short": ["p", "n"],
}
IDEAL_PRIMS = {"R", "C", "L", "V", "I", "Vcvs", "Vccs"}


class IllFormed(Exception):
    def __init__(self, cls, where=""):
        super().__init__(f"{cls}: {where}")
        self.cls = cls
        self.where = where


class ModelError(Exception):
    """The model cannot give a meaning (harness-side problem or construct outside the model)."""


class NoConnVal:
    def __init__(self, ncid, name):
        self.ncid = ncid
        self.name = name


class Mod:
    def __init__(self, mid, name, style):
        self.mid = mid
        self.name = name
        self.style = style
        self.sigs = {}  # name -> (width, vis, dir)    designer signals, declaration order
        self.buns = {}  # name -> (bid, port, flipped)
        self.insts = {}  # iname -> dict(kind=inst|arr|pair, target, n)
        self.conns = {}  # iname -> {port: X}   the current mapping
        self.order = []  # attribute declaration order [(kind, name)]
        self.ended = False


class Design:
    def __init__(self):
        self.bundles = {DIFF: {"name": "Diff", "sigs": {"p": 1, "n": 1}, "subs": {}}}
        self.exts = {}
        self.mods = {}

    # ------------------------------------------------------------------ loading
    def apply(self, op):
        k = op[0]
        if k == "bundle":
            _, bid, name, sigs, subs = op
            self.bundles[bid] = {
                "name": name,
                "sigs": {s[0]: s[1] for s in sigs},
                "kinds": {s[0]: s[2] for s in sigs},
                "subs": {s[0]: (s[1], bool(s[2])) for s in subs},
            }
        elif k == "ext":
            xid, name, ports = op[1], op[2], op[3]
            domain = op[4] if len(op) > 4 else "verif"
            self.exts[xid] = {"name": name, "domain": domain, "ports": [(p[0], p[1], p[2]) for p in ports]}
        elif k == "module":
            _, mid, name, style = op
            self.mods[mid] = Mod(mid, name, style)
        elif k == "end":
            self.mods[op[1]].ended = True
        elif k == "sig":
            _, mid, name, width, vis, d = op
            m = self.mods[mid]
            self._declare(m, name, "sig")
            m.sigs[name] = (width, vis, d)
        elif k == "bun":
            _, mid, name, bid, port, flipped = op[:6]  # op[6]: how it is created (ctor | mul | flip), same meaning
            m = self.mods[mid]
            self._declare(m, name, "bun")
            m.buns[name] = (bid, bool(port), bool(flipped))
        elif k in ("inst", "arr", "pair"):
            m = self.mods[op[1]]
            iname = op[2]
            self._declare(m, iname, k)
            if k == "inst":
                _, _, _, target, how, conns = op
                m.insts[iname] = {"kind": "inst", "target": target, "n": 1}
            elif k == "arr":
                _, _, _, target, n, how, conns = op
                m.insts[iname] = {"kind": "arr", "target": target, "n": n}
            else:
                target, conns = op[3], op[4]
                bid = op[5] if len(op) > 5 else DIFF
                if self.bundles[bid]["subs"]:
                    raise ModelError("instance bundle over a nested bundle (outside this model)")
                m.insts[iname] = {"kind": "pair", "target": target, "n": len(self.bundles[bid]["sigs"]), "bid": bid}
            m.conns[iname] = {}
            for p, x in conns.items():
                m.conns[iname][p] = x
            if k == "arr" and how == "mul_keep":
                # `n * unit` of a connected instance `unit`, which is then added in its own right
                # (as `<iname>_t`): the array copies the connections, the unit keeps them
                self.apply(["inst", op[1], iname + "_t", target, "add", dict(conns)])
        elif k == "reinst":
            # an instance name assigned again: the new instance replaces the old one
            _, mid, iname, target, how, conns = op
            m = self.mods[mid]
            if iname not in m.insts or m.insts[iname]["kind"] != "inst":
                raise ModelError("reinst of something that is not an instance")
            m.insts[iname] = {"kind": "inst", "target": target, "n": 1}
            m.conns[iname] = dict(conns)
        elif k == "conn":
            _, mid, iname, port, x, how = op
            self.mods[mid].conns[iname][port] = x
        elif k == "repl":
            _, mid, iname, port, x = op
            c = self.mods[mid].conns[iname]
            if port not in c:
                raise ModelError("replace of unconnected port")
            c[port] = x
        elif k == "disc":
            _, mid, iname, port = op
            c = self.mods[mid].conns[iname]
            if port not in c:
                raise ModelError("disconnect of unconnected port")
            del c[port]
        else:
            raise ModelError(f"not a design op: {k}")

    def _declare(self, m, name, kind):
        # Re-use of a name replaces the earlier attribute (module namespaces are dicts).
        for tbl in (m.sigs, m.buns, m.insts):
            if name in tbl:
                raise ModelError(f"name {name} re-used in module {m.name} (outside this model)")
        m.order.append((kind, name))

    # ------------------------------------------------------------------ shapes
    def bundle_leaves(self, bid):
        """[(path tuple, width)] in declaration order: own signals first, then sub-bundles."""
        b = self.bundles[bid]
        out = [((s,), w) for s, w in b["sigs"].items()]
        for sname, (sub, _f) in b["subs"].items():
            out += [((sname,) + p, w) for p, w in self.bundle_leaves(sub)]
        return out

    def bundle_member(self, bid, path):
        """Shape at `path` inside bundle `bid`: int width, or ("B", bid)."""
        cur = ("B", bid)
        for seg in path:
            if not isinstance(cur, tuple):
                raise IllFormed("bad_member", f"{seg} below a signal")
            b = self.bundles[cur[1]]
            if seg in b["sigs"]:
                cur = b["sigs"][seg]
            elif seg in b["subs"]:
                cur = ("B", b["subs"][seg][0])
            else:
                raise IllFormed("bad_member", f"no member {seg} in bundle {b['name']}")
        return cur

    def target_ports(self, target):
        """Ordered {port: shape} of an instance target."""
        k = target[0]
        if k == "mod":
            m = self.mods[target[1]]
            out = {}
            for kind, name in m.order:
                if kind == "sig" and m.sigs[name][1] == "p":
                    out[name] = m.sigs[name][0]
            for kind, name in m.order:
                if kind == "bun" and m.buns[name][1]:
                    out[name] = ("B", m.buns[name][0])
            return out
        if k == "prim":
            return {p: 1 for p in PRIM_PORTS[target[1]]}
        if k == "ext":
            return {p: w for p, w, _d in self.exts[target[1]]["ports"]}
        raise ModelError(f"target {k}")

    def shape_leaves(self, shape):
        """{path: width} of a shape; a scalar has the single path ()."""
        if isinstance(shape, int):
            return {(): shape}
        return dict(self.bundle_leaves(shape[1]))

    def compatible(self, a, b):
        if isinstance(a, int) or isinstance(b, int):
            return a == b
        return self.shape_leaves(a) == self.shape_leaves(b)


# --------------------------------------------------------------------------------------
# Union-find
# --------------------------------------------------------------------------------------


class UF:
    def __init__(self):
        self.p = {}

    def find(self, x):
        p = self.p
        if x not in p:
            p[x] = x
            return x
        r = x
        while p[r] != r:
            r = p[r]
        while p[x] != r:
            p[x], x = r, p[x]
        return r

    def union(self, a, b):
        ra, rb = self.find(a), self.find(b)
        if ra != rb:
            self.p[ra] = rb


# --------------------------------------------------------------------------------------
# Local elaboration of one module definition
# --------------------------------------------------------------------------------------


class Local:
    """The local netlist of one module definition."""

    def __init__(self, design: Design, mid):
        self.d = design
        self.m = design.mods[mid]
        self.uf = UF()
        self.children = []  # (segment, target, {(port, path): [bit ids]})
        self.noconn_uses = {}  # ncid -> [(iname, port)]
        self.pr_targets = []  # (iname, port) referenced by a live port reference
        self.build()

    # ---- expressions -> bit vectors (list) or bundle values ({path: list})
    def bits(self, x, ctx):
        d, m = self.d, self.m
        k = x[0]
        if k == "m":
            return self.bits(x[2], ctx)
        if k == "s":
            if x[1] not in m.sigs:
                raise ModelError(f"unknown signal {x[1]}")
            return [("s", x[1], i) for i in range(m.sigs[x[1]][0])]
        if k == "sl":
            v = self._scalar(self.bits(x[1], ctx), "index of bundle")
            i = x[2]
            if not (-len(v) <= i < len(v)):
                raise IllFormed("bad_index", f"{i} of width {len(v)}")
            return [v[i]]  # R2
        if k == "sr":
            v = self._scalar(self.bits(x[1], ctx), "slice of bundle")
            out = v[slice(x[2], x[3], x[4])]  # R2
            if not out:
                raise IllFormed("bad_index", "empty slice")
            # Bounds beyond [-w, w]: Python clamps; Hdl21 may clamp or reject (C03). Not
            # ill-formed for this model, and not generated in valid programs either.
            return out
        if k == "cat":
            out = []
            for p in x[1:]:
                out += self._scalar(self.bits(p, ctx), "concat of bundle")  # R3
            return out
        if k == "pr":
            iname, port = x[1], x[2]
            if iname not in m.insts:
                raise ModelError(f"unknown instance {iname}")
            ports = d.target_ports(m.insts[iname]["target"])
            if port not in ports:
                raise IllFormed("bad_port", f"{iname}.{port}")
            self.pr_targets.append((iname, port))
            return self.port_node(iname, port, ports[port])  # R5
        if k == "nc":
            return NoConnVal(x[1], x[2])
        if k == "b":
            if x[1] not in m.buns:
                raise ModelError(f"unknown bundle {x[1]}")
            bid = m.buns[x[1]][0]
            return {p: [("b", x[1], p, i) for i in range(w)] for p, w in d.bundle_leaves(bid)}
        if k == "br":
            bname, path = x[1], tuple(x[2:])
            bid = m.buns[bname][0]
            sh = d.bundle_member(bid, path)
            if isinstance(sh, int):
                return [("b", bname, path, i) for i in range(sh)]
            return {p: [("b", bname, path + p, i) for i in range(w)] for p, w in d.bundle_leaves(sh[1])}
        if k in ("an", "d"):
            members = x[2] if k == "an" else x[1]
            out = {}
            for name, sub in members.items():
                v = self.bits(sub, ctx)
                if isinstance(v, NoConnVal):
                    raise IllFormed("anon_noconn", name)
                if isinstance(v, dict):
                    for p, bits in v.items():
                        out[(name,) + p] = bits
                else:
                    out[(name,)] = v
            return out
        if k == "xs":  # a signal owned by another module
            raise IllFormed("orphan", f"signal {x[2]} of module {x[1]}")
        if k == "os":  # a signal owned by no module
            raise IllFormed("orphan", "unowned signal")
        raise ModelError(f"expr {k}")

    @staticmethod
    def _scalar(v, what):
        if isinstance(v, dict):
            raise IllFormed("width", what)
        if isinstance(v, NoConnVal):
            raise IllFormed("noconn_shared", "no-connect inside an expression")
        return v

    def port_node(self, iname, port, shape):
        """The bits on port `port` of instance-like `iname` (the w-wide node, for arrays the
        broadcast vector)."""
        if isinstance(shape, int):
            return [("t", iname, port, (), i) for i in range(shape)]
        return {p: [("t", iname, port, p, i) for i in range(w)] for p, w in self.d.bundle_leaves(shape[1])}

    def unify(self, a, b, where):
        """Join two values bit by bit (R4); shapes must agree."""
        if isinstance(a, dict) != isinstance(b, dict):
            raise IllFormed("width", f"{where}: bundle vs signal")
        if isinstance(a, dict):
            if set(a) != set(b):
                missing = set(a) - set(b)
                if missing:
                    raise IllFormed("bad_member", f"{where}: missing {sorted(missing)}")
                raise IllFormed("extra_member", f"{where}: extra {sorted(set(b) - set(a))}")
            for p in a:
                self.unify(a[p], b[p], where + "." + "_".join(p))
            return
        if len(a) != len(b):
            raise IllFormed("width", f"{where}: {len(a)} != {len(b)}")
        for x, y in zip(a, b):
            self.uf.union(x, y)

    def build(self):
        d, m = self.d, self.m
        for iname, info in m.insts.items():
            ports = d.target_ports(info["target"])
            conns = m.conns[iname]
            kind, n = info["kind"], info["n"]
            for port in conns:
                if port not in ports:
                    raise IllFormed("extra_conn", f"{iname}.{port}")
            # element-level port bits
            if kind == "inst":
                elems = [(iname, {})]
            elif kind == "arr":
                if n < 1:
                    raise IllFormed("array_size", iname)
                elems = [(("a", iname, k), {}) for k in range(n)]
            else:
                members = list(d.bundles[info.get("bid", DIFF)]["sigs"])
                elems = [(("p", iname, mem), {}) for mem in members]
            for port, shape in ports.items():
                node = self.port_node(iname, port, shape)
                x = conns.get(port)
                val = None if x is None else self.bits(x, (iname, port))
                nc_pair = False
                if isinstance(val, NoConnVal):
                    self.noconn_uses.setdefault(val.ncid, []).append((iname, port))
                    if kind == "arr" and not isinstance(shape, int):
                        raise ModelError("no-connect on a bundle-valued array port (outside this model)")
                    nc_pair = kind in ("pair", "arr")  # every member / element instance's port ends on a net of its own
                    val = None  # R6: the node's own bits are private
                where = f"{m.name}.{iname}.{port}"
                if kind == "inst":
                    if val is not None:
                        self.unify(node, val, where)
                    self._assign(elems[0][1], port, node)
                elif kind == "arr" and nc_pair:
                    for k, (_seg, pm) in enumerate(elems):
                        self._assign(pm, port, self.port_node(("nc", iname, k), port, shape))
                elif kind == "arr":  # R8
                    if val is None or isinstance(val, dict) or isinstance(shape, tuple):
                        if val is not None:
                            self.unify(node, val, where)
                        for _seg, pm in elems:
                            self._assign(pm, port, node)
                    elif len(val) == shape:
                        self.unify(node, val, where)
                        for _seg, pm in elems:
                            self._assign(pm, port, node)
                    elif len(val) == shape * n:
                        for k, (_seg, pm) in enumerate(elems):
                            self._assign(pm, port, val[k * shape : (k + 1) * shape])
                    else:
                        raise IllFormed("width", f"{where}: array conn width {len(val)} vs {shape} x {n}")
                else:  # pair, R9
                    if isinstance(shape, tuple):
                        raise ModelError("pair of a module with bundle ports (outside this model)")
                    if isinstance(val, dict):
                        if set(val) != {(mem,) for mem in members}:
                            raise IllFormed("bad_member", f"{where}: pair bundle members {sorted(val)}")
                        for (_seg, pm), mem in zip(elems, members):
                            if len(val[(mem,)]) != shape:
                                raise IllFormed("width", f"{where}: pair member width")
                            self._assign(pm, port, val[(mem,)])
                    elif nc_pair:
                        for (_seg, pm), mem in zip(elems, members):
                            self._assign(pm, port, self.port_node(("nc", iname, mem), port, shape))
                    else:
                        if val is not None:
                            self.unify(node, val, where)
                        for _seg, pm in elems:
                            self._assign(pm, port, node)
            for seg, pm in elems:
                self.children.append((seg, info["target"], pm))
        # R6: a no-connect is used once and its port is not referenced elsewhere
        # (One no-connect object on two ports is contested ground - Hdl21 gives each port its
        # own private net, which keeps "a no-connected port ends on a net with nothing else" -
        # so the model accepts it with that meaning and the generators never produce it.)
        for ncid, uses in self.noconn_uses.items():
            for u in uses:
                if u in self.pr_targets:
                    raise IllFormed("noconn_shared", f"no-connected port {u} is referenced")
        # every port is connected, or referenced by a live port reference
        for iname, info in m.insts.items():
            ports = d.target_ports(info["target"])
            for port in ports:
                if port not in m.conns[iname] and (iname, port) not in self.pr_targets:
                    raise IllFormed("missing_conn", f"{m.name}.{iname}.{port}")

    @staticmethod
    def _assign(pm, port, val):
        if isinstance(val, dict):
            for p, bits in val.items():
                pm[(port, p)] = bits
        else:
            pm[(port, ())] = val


# --------------------------------------------------------------------------------------
# Whole-design judgement and flattening
# --------------------------------------------------------------------------------------


def reachable(design: Design, tops):
    """Module ids reachable from `tops`, children first; raises IllFormed on a cycle."""
    order, state = [], {}

    def visit(mid, stack):
        st = state.get(mid)
        if st == 2:
            return
        if st == 1:
            raise IllFormed("circular", f"module {design.mods[mid].name}")
        state[mid] = 1
        for info in design.mods[mid].insts.values():
            if info["target"][0] == "mod":
                visit(info["target"][1], stack + [mid])
        state[mid] = 2
        order.append(mid)

    for t in tops:
        visit(t, [])
    return order


def judge(design: Design, tops):
    """None if the design rooted at `tops` is well-formed, else (class, where)."""
    try:
        order = reachable(design, tops)
        names = {}
        for mid in order:
            m = design.mods[mid]
            if not m.name:
                raise IllFormed("unnamed", f"module {mid}")
            if m.name in names and m.style != "gen":
                raise IllFormed("name_clash", m.name)
            names[m.name] = mid
        locals_ = {}
        for mid in order:
            locals_[mid] = Local(design, mid)
        return None, locals_
    except IllFormed as e:
        return (e.cls, e.where), None


def flatten(design: Design, top, locals_=None):
    """Leaf devices and net partition of the design rooted at module `top`.

    Returns dict(leaves=[{path, kind, params, terms:{(port,bit): net}}],
                 anchors={anchor: net})   nets are opaque hashables.
    Anchors: ("sig", path, name, bit) for every designer signal at every level,
             ("bun", path, bname, leafpath, bit) for every bundle-instance leaf.
    """
    if locals_ is None:
        bad, locals_ = judge(design, [top])
        if bad:
            raise IllFormed(*bad)
    g = UF()
    leaves = []
    anchors = {}
    nodes = {}
    bundle_ports = {}
    sig_widths = {}
    counter = [0]

    def inst(mid, path, portmap):
        """portmap: {(port, leafpath): [global ids]} for the module's ports."""
        loc = locals_[mid]
        m = design.mods[mid]
        counter[0] += 1
        scope = counter[0]
        cache = {}

        def glob(bit):
            r = loc.uf.find(bit)
            if r not in cache:
                cache[r] = ("n", scope, len(cache))
            return cache[r]

        # bind ports to the parent's nets
        for name, (w, vis, _d) in m.sigs.items():
            if vis == "p" and portmap is not None:
                ext = portmap[(name, ())]
                for i in range(w):
                    g.union(glob(("s", name, i)), ext[i])
        for bname, (bid, port, _f) in m.buns.items():
            if port and portmap is not None:
                for p, w in design.bundle_leaves(bid):
                    ext = portmap[(bname, p)]
                    for i in range(w):
                        g.union(glob(("b", bname, p, i)), ext[i])
        # anchors
        for name, (w, _v, _d) in m.sigs.items():
            sig_widths[(path, name)] = w
            for i in range(w):
                anchors[("sig", path, name, i)] = glob(("s", name, i))
        for bname, (bid, _p, _f) in m.buns.items():
            bundle_ports[(path, bname)] = _p
            for p, w in design.bundle_leaves(bid):
                for i in range(w):
                    anchors[("bun", path, bname, p, i)] = glob(("b", bname, p, i))
        # children
        for seg, target, pm in loc.children:
            cpath = path + (seg,)
            gpm = {k: [glob(b) for b in bits] for k, bits in pm.items()}
            if target[0] == "mod":
                nodes[cpath] = ("mod", target[1])
                inst(target[1], cpath, gpm)
            else:
                terms = {}
                for (port, lp), ids in gpm.items():
                    for i, n in enumerate(ids):
                        terms[(port, i)] = n
                if target[0] == "prim":
                    kind = "prim:" + target[1]
                else:
                    kind = "ext:" + design.exts[target[1]]["domain"] + "/" + design.exts[target[1]]["name"]
                nodes[cpath] = kind
                leaves.append({"path": cpath, "kind": kind, "params": dict(target[2]), "terms": terms})

    inst(top, (), None)
    for leaf in leaves:
        leaf["terms"] = {k: g.find(v) for k, v in leaf["terms"].items()}
    anchors = {k: g.find(v) for k, v in anchors.items()}
    return {"leaves": leaves, "anchors": anchors, "nodes": nodes, "bundle_ports": bundle_ports, "sig_widths": sig_widths}


def load(ops):
    d = Design()
    for op in ops:
        if op[0] in DESIGN_OPS:
            d.apply(op)
    return d


DESIGN_OPS = {"bundle", "ext", "module", "end", "sig", "bun", "inst", "arr", "pair", "conn", "disc", "repl", "reinst"}
