"""C02 workload: plant one ill-formedness of one class at one site of a valid program.

Every mutation is a deliberate single edit of the op list.  The reference model
re-judges the mutant afterwards (profiles/conn.py); only mutants it calls ill-formed
count, the others are discarded as neutral.
"""
import copy

from . import refmodel

CLASSES = [
    "width_direct",
    "width_member",
    "width_anon_member",
    "width_portref",
    "width_array",
    "missing_conn",
    "extra_conn",
    "bad_port_ref",
    "bad_member",
    "extra_member",
    "pair_foreign_bundle",
    "superset_bundle",
    "bad_index",
    "empty_slice",
    "orphan_other_module",
    "orphan_unowned",
    "orphan_replaced",
    "noconn_referenced",
    "circular",
    "unnamed",
    "name_clash",
]


def _walk_paths(x, path=()):
    """Yield (path, node) for every expression node inside x."""
    if isinstance(x, list) and x and isinstance(x[0], str):
        yield path, x
        for i, v in enumerate(x):
            if isinstance(v, (list, dict)):
                yield from _walk_paths(v, path + (i,))
    elif isinstance(x, dict):
        for k, v in x.items():
            yield from _walk_paths(v, path + (k,))


def _set_path(x, path, new):
    if not path:
        return new
    x = copy.deepcopy(x)
    cur = x
    for p in path[:-1]:
        cur = cur[p]
    cur[path[-1]] = new
    return x


def live_conn_ops(ops, d, hier):
    """Indices of conn/repl ops (or inst-op conns) that define a *live* connection of a module in hier."""
    out = []
    for i, op in enumerate(ops):
        if op[0] in ("conn", "repl") and op[1] in hier:
            m = d.mods[op[1]]
            if m.conns.get(op[2], {}).get(op[3]) == op[4]:
                out.append(i)
    return out


def width_of(d, mid, x):
    """Width of scalar expression x in module mid, or None."""
    try:
        loc = refmodel.Local.__new__(refmodel.Local)
        loc.d, loc.m, loc.uf = d, d.mods[mid], refmodel.UF()
        loc.pr_targets = []
        v = loc.bits(x, None)
        if isinstance(v, list):
            return len(v)
    except Exception:  # noqa
        pass
    return None


def plant(ch, ops, top, prefer=None):
    """Returns (mutant ops, class, site description) or None.  `prefer`: classes tried first."""
    d = refmodel.load(ops)
    try:
        hier = refmodel.reachable(d, [top])
    except refmodel.IllFormed:
        return None
    order = ch.shuffle(CLASSES, "c02class")
    if prefer:
        first = ch.shuffle(list(prefer), "c02prefer")
        order = first + [c for c in order if c not in first]
    for cls in order:
        fn = globals()["_" + cls]
        for _attempt in range(3):
            r = fn(ch, ops, d, hier, top)
            if r is not None:
                mops, site = r
                return mops, cls, site
    return None


def _fresh_sig(ops, mid, width, tag):
    name = f"{tag}{len(ops)}"
    return name, ["sig", mid, name, width, "i", "n"]


def _replace_live_x(ch, ops, d, hier, pred, make):
    """Pick a live connection whose expression has a node satisfying pred; replace that node
    by make(mid, node, ops) -> (pre_ops, new_node) ."""
    cands = []
    for i in live_conn_ops(ops, d, hier):
        op = ops[i]
        for path, node in _walk_paths(op[4]):
            if pred(op, path, node):
                cands.append((i, path, node))
    if not cands:
        return None
    i, path, node = ch.pick(cands, "site")
    op = ops[i]
    r = make(op[1], node, op)
    if r is None:
        return None
    pre, new = r
    nop = copy.deepcopy(op)
    nop[4] = _set_path(op[4], path, new)
    info = d.mods[op[1]].insts[op[2]]
    site = f"{'top' if op[1] == hier[-1] else 'deep'}:{info['kind']}:{op[4][0]}" + (":nested" if path else "")
    return ops[:i] + pre + [nop] + ops[i + 1 :], site


def _width_direct(ch, ops, d, hier, top):
    def pred(op, path, node):
        # instances and instance bundles (a scalar connection to a pair is wired in parallel, so any
        # other width is a mismatch); arrays have their own class (w or n*w are both legal there)
        return not path and node[0] in ("s", "sl", "sr", "cat") and d.mods[op[1]].insts[op[2]]["kind"] in ("inst", "pair") and width_of(d, op[1], node) is not None

    def make(mid, node, op):
        w = width_of(d, mid, node)
        nw = w + 1 if (w == 1 or ch.chance(1, 2)) else w - 1
        name, decl = _fresh_sig(ops, mid, nw, "wr")
        return [decl], ["s", name]

    return _replace_live_x(ch, ops, d, hier, pred, make)


def _width_member(ch, ops, d, hier, top):
    """Wrong width hidden inside an anonymous bundle / dict member, or a concat part."""

    def pred(op, path, node):
        return len(path) >= 1 and node[0] in ("s", "sl", "sr") and width_of(d, op[1], node) is not None

    def make(mid, node, op):
        w = width_of(d, mid, node)
        name, decl = _fresh_sig(ops, mid, w + 1, "wm")
        return [decl], ["s", name]

    return _replace_live_x(ch, ops, d, hier, pred, make)


def _width_anon_member(ch, ops, d, hier, top):
    """A scalar member of an anonymous bundle / dict connection is one bit too wide (nothing else
    in the design is wrong; the connecting module may have no bundle of its own)."""

    def pred(op, path, node):
        # path = (index of the member dict inside the an/d node, member name)
        return op[4][0] in ("an", "d") and len(path) == 2 and isinstance(path[1], str) and node[0] == "s" and width_of(d, op[1], node) is not None

    def make(mid, node, op):
        w = width_of(d, mid, node)
        name, decl = _fresh_sig(ops, mid, w + 1, "wa")
        return [decl], ["s", name]

    return _replace_live_x(ch, ops, d, hier, pred, make)


def _width_portref(ch, ops, d, hier, top):
    """A port reference to a port of another width."""

    def pred(op, path, node):
        return not path and node[0] in ("s", "pr") and d.mods[op[1]].insts[op[2]]["kind"] == "inst" and isinstance(d.target_ports(d.mods[op[1]].insts[op[2]]["target"]).get(op[3]), int)

    def make(mid, node, op):
        m = d.mods[mid]
        w = d.target_ports(m.insts[op[2]]["target"])[op[3]]
        cands = []
        for iname, info in m.insts.items():
            if info["kind"] != "inst" or iname == op[2]:
                continue
            for port, sh in d.target_ports(info["target"]).items():
                if isinstance(sh, int) and sh != w and m.conns[iname].get(port, ["x"])[0] != "nc":
                    cands.append(["pr", iname, port])
        if not cands:
            return None
        return [], ch.pick(cands, "prw")

    return _replace_live_x(ch, ops, d, hier, pred, make)


def _width_array(ch, ops, d, hier, top):
    def pred(op, path, node):
        info = d.mods[op[1]].insts[op[2]]
        return not path and info["kind"] == "arr" and isinstance(d.target_ports(info["target"]).get(op[3]), int) and node[0] != "nc"

    def make(mid, node, op):
        info = d.mods[mid].insts[op[2]]
        w = d.target_ports(info["target"])[op[3]]
        n = info["n"]
        bad = [x for x in range(1, w * n + 3) if x not in (w, w * n)]
        name, decl = _fresh_sig(ops, mid, ch.pick(bad, "aw"), "wa")
        return [decl], ["s", name]

    return _replace_live_x(ch, ops, d, hier, pred, make)


def _missing_conn(ch, ops, d, hier, top):
    live = live_conn_ops(ops, d, hier)
    if not live:
        return None
    i = ch.pick(live, "miss")
    op = ops[i]
    info = d.mods[op[1]].insts[op[2]]
    site = f"{'top' if op[1] == top else 'deep'}:{info['kind']}:{op[4][0]}"
    if _only_conn(ops, i):
        return ops[:i] + ops[i + 1 :], site  # never connected at all
    return ops[: i + 1] + [["disc", op[1], op[2], op[3]]] + ops[i + 1 :], site + ":disconnected"


def _only_conn(ops, i):
    """True if op i is the only connection operation ever made to its port (it can simply be dropped)."""
    op = ops[i]
    n = 0
    for o in ops:
        if o[0] in ("conn", "repl", "disc") and o[1:4] == op[1:4]:
            n += 1
        if o[0] in ("inst", "arr", "pair") and o[1] == op[1] and o[2] == op[2]:
            conns = o[5] if o[0] == "inst" else (o[6] if o[0] == "arr" else o[4])
            if op[3] in conns:
                n += 1
    return n == 1


def _extra_conn(ch, ops, d, hier, top):
    live = live_conn_ops(ops, d, hier)
    if not live:
        return None
    if ch.chance(1, 6):
        # an instance of a module that has no ports at all, with a stray connection
        j = ch.pick(live, "portless_at")
        op = ops[j]
        if op[4][0] == "s":
            mid = op[1]
            pl = 9500 + len(ops)
            decl = [["module", pl, f"NoPorts{pl}", "proc"], ["sig", pl, "inner", 1, "i", "n"], ["end", pl]]
            inst = ["inst", mid, f"np{len(ops)}", ["mod", pl], "call", {"en": op[4]}]
            first_mod = next(k for k, o in enumerate(ops) if o[0] == "module")
            return ops[:first_mod] + decl + ops[first_mod : j + 1] + [inst] + ops[j + 1 :], f"{'top' if mid == top else 'deep'}:inst:portless"
    # (arrays whose target has bundle ports first, half of the time: only the flattening passes see those)
    arrs = [j for j in live if ops[j][4][0] == "s" and d.mods[ops[j][1]].insts[ops[j][2]]["kind"] == "arr" and any(isinstance(sh, tuple) for sh in d.target_ports(d.mods[ops[j][1]].insts[ops[j][2]]["target"]).values())]
    i = ch.pick(arrs, "extra_arr") if arrs and ch.chance(1, 2) else ch.pick(live, "extra")
    op = ops[i]
    if op[4][0] not in ("s", "b"):
        return None
    info = d.mods[op[1]].insts[op[2]]
    pname = "nosuchport"
    where = ""
    if op[4][0] == "s":
        # sometimes the extra port is named like a *flattened member* of one of the target's bundle
        # ports (`b_x`): no such port exists before flattening, and afterwards it must not swallow it
        w = d.mods[op[1]].sigs[op[4][1]][0]
        flats = []
        for port, shape in d.target_ports(info["target"]).items():
            if isinstance(shape, tuple):
                for path, lw in d.bundle_leaves(shape[1]):
                    if lw == w or (info["kind"] == "arr" and lw * info["n"] == w):
                        flats.append(port + "_" + "_".join(path))
        if flats and ch.chance(1, 2):
            pname = ch.pick(sorted(flats), "flatname")
            where = ":flatname"
    if pname in d.target_ports(info["target"]):
        return None
    nop = ["conn", op[1], op[2], pname, op[4], "connect"]
    return ops[: i + 1] + [nop] + ops[i + 1 :], f"{'top' if op[1] == top else 'deep'}:{info['kind']}{where}"


def _bad_port_ref(ch, ops, d, hier, top):
    def pred(op, path, node):
        return node[0] == "pr"

    def make(mid, node, op):
        return [], ["pr", node[1], "nosuchport"]

    r = _replace_live_x(ch, ops, d, hier, pred, make)
    if r is not None:
        return r

    # no port reference in the design: make one
    def pred2(op, path, node):
        return not path and node[0] == "s" and d.mods[op[1]].insts[op[2]]["kind"] == "inst"

    def make2(mid, node, op):
        others = [i for i, info in d.mods[mid].insts.items() if info["kind"] == "inst"]
        return [], ["pr", ch.pick(others, "bpr"), "nosuchport"]

    return _replace_live_x(ch, ops, d, hier, pred2, make2)


def _bad_member(ch, ops, d, hier, top):
    def pred(op, path, node):
        return node[0] == "br"

    def make(mid, node, op):
        return [], node[:-1] + ["nosuchmember"]

    r = _replace_live_x(ch, ops, d, hier, pred, make)
    if r is not None:
        return r

    # an anonymous bundle lacking a member
    def pred2(op, path, node):
        return node[0] in ("an", "d") and len(node[-1]) >= 1

    def make2(mid, node, op):
        node = copy.deepcopy(node)
        members = node[-1]
        k = ch.pick(sorted(members), "dropm")
        del members[k]
        if node[0] == "an":
            node[1] = node[1] + 1000
        return [], node

    return _replace_live_x(ch, ops, d, hier, pred2, make2)


def _extra_member(ch, ops, d, hier, top):
    """An anonymous bundle / dict connection brings a member the port's bundle does not have."""

    def pred(op, path, node):
        return node[0] in ("an", "d") and not path

    def make(mid, node, op):
        node = copy.deepcopy(node)
        name, sop = _fresh_sig(ops, mid, 1, "xm")
        node[-1]["zextra"] = ["s", name]
        if node[0] == "an":
            node[1] = node[1] + 2000
        return [sop], node

    return _replace_live_x(ch, ops, d, hier, pred, make)


def _pair_foreign_bundle(ch, ops, d, hier, top):
    """A pair (instance-bundle) port takes an instance of *another* bundle type: the members of the
    pair's own bundle plus one more.  (The extra member has nowhere to go.)"""
    cands = []
    for i in live_conn_ops(ops, d, hier):
        op = ops[i]
        info = d.mods[op[1]].insts.get(op[2])
        if info and info["kind"] == "pair" and op[4][0] == "b":
            cands.append(i)
    if not cands:
        return None
    i = ch.pick(cands, "site")
    op = ops[i]
    mid = op[1]
    bid = d.mods[mid].insts[op[2]].get("bid", refmodel.DIFF)
    b = d.bundles[bid]
    nb = 7000 + len(ops)
    sigs = [[n_, w_, (b.get("kinds") or {}).get(n_, "s")] for n_, w_ in b["sigs"].items()] + [["zcm", 1, "s"]]
    bname = f"fb{len(ops)}"
    nop = copy.deepcopy(op)
    nop[4] = ["b", bname]
    site = f"{'top' if mid == hier[-1] else 'deep'}:pair:b"
    return [["bundle", nb, f"BX{nb}", sigs, []]] + ops[:i] + [["bun", mid, bname, nb, False, False], nop] + ops[i + 1 :], site


def _superset_bundle(ch, ops, d, hier, top):
    """A bundle-valued port of an instance or *array* takes an instance of another bundle type: every
    member of the port's bundle, plus one more (which has nowhere to go)."""
    cands = []
    for i in live_conn_ops(ops, d, hier):
        op = ops[i]
        info = d.mods[op[1]].insts.get(op[2])
        if not info or info["kind"] not in ("inst", "arr") or op[4][0] != "b":
            continue
        shape = d.target_ports(info["target"]).get(op[3])
        if isinstance(shape, tuple):
            cands.append((i, shape[1], 2 if info["kind"] == "arr" else 1))
    if not cands:
        return None
    # arrays first: only the flattening passes look at their connections
    cands = [c for c in cands for _ in range(c[2])]
    i, bid, _w = ch.pick(cands, "site")
    op = ops[i]
    mid = op[1]
    b = d.bundles[bid]
    nb = 8000 + len(ops)
    sigs = [[n_, w_, (b.get("kinds") or {}).get(n_, "s")] for n_, w_ in b["sigs"].items()] + [["zextra", 1, "s"]]
    subs = [[n_, sb, fl] for n_, (sb, fl) in b["subs"].items()]
    bname = f"sb{len(ops)}"
    old_b = d.mods[mid].buns[op[4][1]]
    nop = copy.deepcopy(op)
    nop[4] = ["b", bname]
    site = f"{'top' if mid == hier[-1] else 'deep'}:{d.mods[mid].insts[op[2]]['kind']}:b"
    return [["bundle", nb, f"BS{nb}", sigs, subs]] + ops[:i] + [["bun", mid, bname, nb, False, bool(old_b[2])], nop] + ops[i + 1 :], site


def _bad_index(ch, ops, d, hier, top):
    def pred(op, path, node):
        return node[0] in ("s", "sl", "sr", "cat", "br") and width_of(d, op[1], node) is not None and d.mods[op[1]].insts[op[2]]["kind"] == "inst"

    def make(mid, node, op):
        w = width_of(d, mid, node)
        idx = ch.pick([w, w + 1, -w - 1, w + 3], "badidx")
        if w == 1:
            return [], ["sl", node, idx]
        # keep the connection's width right so only the index is wrong: wrap into a concat of w bits
        return [], ["cat"] + [["sl", node, idx]] * 1 + [["sl", node, k] for k in range(w - 1)]

    return _replace_live_x(ch, ops, d, hier, pred, make)


def _empty_slice(ch, ops, d, hier, top):
    def pred(op, path, node):
        return node[0] in ("s", "sl", "sr", "cat") and (width_of(d, op[1], node) or 0) >= 2 and len(path) >= 1

    def make(mid, node, op):
        w = width_of(d, mid, node)
        a = ch.rint(0, w - 1, "es")
        return [], ["cat", node, ["sr", node, a, a, None]]

    r = _replace_live_x(ch, ops, d, hier, pred, make)
    if r is not None:
        return r

    def pred2(op, path, node):
        return not path and node[0] == "s" and (width_of(d, op[1], node) or 0) >= 2 and d.mods[op[1]].insts[op[2]]["kind"] == "inst"

    def make2(mid, node, op):
        return [], ["cat", node, ["sr", node, 1, 1, None]]

    return _replace_live_x(ch, ops, d, hier, pred2, make2)


def _orphan_other_module(ch, ops, d, hier, top):
    def pred(op, path, node):
        return node[0] == "s" and d.mods[op[1]].insts[op[2]]["kind"] == "inst"

    def make(mid, node, op):
        w = d.mods[mid].sigs[node[1]][0]
        cands = []
        for omid, om in d.mods.items():
            if omid == mid or om.style == "gen":
                continue
            for sname, (sw, _v, _d) in om.sigs.items():
                if sw == w:
                    cands.append(["xs", omid, sname])
        if not cands:
            return None
        return [], ch.pick(cands, "xs")

    return _replace_live_x(ch, ops, d, hier, pred, make)


def _orphan_unowned(ch, ops, d, hier, top):
    def pred(op, path, node):
        return node[0] == "s"

    def make(mid, node, op):
        return [], ["os", d.mods[mid].sigs[node[1]][0], f"orph{len(ops)}"]

    return _replace_live_x(ch, ops, d, hier, pred, make)


def _orphan_replaced(ch, ops, d, hier, top):
    """A connected internal signal is replaced under its own name by a fresh signal (same or
    other width): the connection is still to the former holder, which no module owns any more."""
    cands = []
    for i in live_conn_ops(ops, d, hier):
        op = ops[i]
        if op[0] not in ("conn", "repl") or d.mods[op[1]].style == "gen":
            continue
        for path, node in _walk_paths(op[4]):
            if node[0] == "s" and d.mods[op[1]].sigs[node[1]][1] == "i":
                cands.append((i, node[1]))
    if not cands:
        return None
    i, name = ch.pick(cands, "site")
    mid = ops[i][1]
    w = d.mods[mid].sigs[name][0]
    neww = ch.pick([w, w, w + 1, max(1, w - 1)], "replw")
    site = f"{'top' if mid == hier[-1] else 'deep'}:{d.mods[mid].insts[ops[i][2]]['kind']}:{'same' if neww == w else 'other'}-width"
    # (the new holder of the name may be of another kind: a port instead of an internal signal)
    vis = ch.pick(["i", "i", "p"], "replvis")
    return ops[: i + 1] + [["sig", mid, name, neww, vis, "n" if vis == "i" else ch.pick(["i", "o", "n"], "repldir")]] + ops[i + 1 :], site + (":as-port" if vis == "p" else "")


def _noconn_shared(ch, ops, d, hier, top):
    """The same no-connect object on two ports."""
    live = live_conn_ops(ops, d, hier)
    ncs = [i for i in live if ops[i][4][0] == "nc"]
    if ncs:
        i = ch.pick(ncs, "ncs")
        op = ops[i]
        others = [j for j in live if j != i and ops[j][1] == op[1] and d.mods[op[1]].insts[ops[j][2]]["kind"] == "inst" and _scalar_port(d, ops[j])]
        if others:
            j = ch.pick(others, "ncs2")
            nop = copy.deepcopy(ops[j])
            nop[4] = copy.deepcopy(op[4])
            return ops[:j] + [nop] + ops[j + 1 :], f"{'top' if op[1] == top else 'deep'}:existing"
    # make one: two scalar ports of instances of one module share a fresh no-connect
    by_mod = {}
    for j in live:
        if d.mods[ops[j][1]].insts[ops[j][2]]["kind"] == "inst" and _scalar_port(d, ops[j]) and not _referenced(d, ops, ops[j]):
            by_mod.setdefault(ops[j][1], []).append(j)
    mods = [m for m, js in by_mod.items() if len(js) >= 2]
    if not mods:
        return None
    mid = ch.pick(sorted(mods), "ncmod")
    a, b = ch.shuffle(by_mod[mid], "ncpair")[:2]
    nc = ["nc", 7000 + len(ops), None]
    out = list(ops)
    for j in (a, b):
        nop = copy.deepcopy(ops[j])
        nop[4] = nc
        out[j] = nop
    return out, f"{'top' if mid == top else 'deep'}:fresh"


def _scalar_port(d, op):
    info = d.mods[op[1]].insts[op[2]]
    return isinstance(d.target_ports(info["target"]).get(op[3]), int)


def _referenced(d, ops, op):
    from .minimise import mentions_inst

    for o in ops:
        if o[0] in ("conn", "repl") and o[1] == op[1]:
            for _p, node in _walk_paths(o[4]):
                if node[0] == "pr" and node[1] == op[2] and node[2] == op[3]:
                    return True
    return False


def _noconn_referenced(ch, ops, d, hier, top):
    """A port that is referenced elsewhere gets a no-connect."""
    live = live_conn_ops(ops, d, hier)
    cands = [j for j in live if d.mods[ops[j][1]].insts[ops[j][2]]["kind"] == "inst" and _scalar_port(d, ops[j]) and _live_referenced(d, ops[j])]
    if not cands:
        return None
    j = ch.pick(cands, "ncr")
    nop = copy.deepcopy(ops[j])
    nop[4] = ["nc", 8000 + len(ops), None]
    return ops[:j] + [nop] + ops[j + 1 :], f"{'top' if ops[j][1] == top else 'deep'}"


def _live_referenced(d, op):
    m = d.mods[op[1]]
    for iname, conns in m.conns.items():
        for port, x in conns.items():
            for _p, node in _walk_paths(x):
                if node[0] == "pr" and node[1] == op[2] and node[2] == op[3]:
                    return True
    return False


def _circular(ch, ops, d, hier, top):
    """An earlier module of the hierarchy instantiates one that (transitively) instantiates it."""
    pairs = []
    for a in hier:
        for b in hier:
            if a == b:
                continue
            try:
                if a in refmodel.reachable(d, [b]) and not d.mods[a].style == "gen":
                    pairs.append((a, b))  # b contains a: let a instantiate b
            except refmodel.IllFormed:
                pass
    if not pairs:
        return None
    a, b = ch.pick(pairs, "cyc")
    return ops + [["inst", a, f"cyc{len(ops)}", ["mod", b], "setattr", {}]], f"{'top' if b == top else 'deep'}"


def _unnamed(ch, ops, d, hier, top):
    cands = [m for m in hier if d.mods[m].style == "proc"]
    if not cands:
        return None
    mid = ch.pick(cands, "unn")
    out = [(["module", mid, None, "proc"] if (op[0] == "module" and op[1] == mid) else op) for op in ops]
    return out, f"{'top' if mid == top else 'deep'}"


def _name_clash(ch, ops, d, hier, top):
    cands = [m for m in hier if d.mods[m].style != "gen"]
    if len(cands) < 2:
        return None
    a, b = ch.shuffle(cands, "clash")[:2]
    name = d.mods[a].name
    out = [(["module", b, name, op[3]] if (op[0] == "module" and op[1] == b) else op) for op in ops]
    return out, f"{'top' if top in (a, b) else 'deep'}"
