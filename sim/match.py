"""Comparison of the reference model's meaning with a package reading (DESIGN §3.5-3).

Designer-chosen names (signals, instances) are stable identifiers.  Names the elaborator
invents (array elements, pair members, flattened bundle leaves, implicit nets) are never
assumed: candidates are found by stem (`stem` + optional underscore-led suffix), ambiguity
is resolved by trying the alternatives, and implicit nets are not anchors at all.
"""
import itertools
import re

PRIM_EXPORT = {
    "R": "vlsir.primitives/resistor",
    "C": "vlsir.primitives/capacitor",
    "L": "vlsir.primitives/inductor",
    "V": "vlsir.primitives/vdc",
    "I": "vlsir.primitives/isource",
    "Vcvs": "vlsir.primitives/vcvs",
    "Vccs": "vlsir.primitives/vccs",
    "Mos": "hdl21.primitives/Mos",
    "Nmos": "hdl21.primitives/Mos",
    "Pmos": "hdl21.primitives/Mos",
    "Diode": "hdl21.primitives/Diode",
    "Bipolar": "hdl21.primitives/Bipolar",
    "Res3": "hdl21.primitives/ThreeTerminalResistor",
    "Cap3": "hdl21.primitives/ThreeTerminalCapacitor",
    "PhyRes": "hdl21.primitives/PhysicalResistor",
    "PhyCap": "hdl21.primitives/PhysicalCapacitor",
    "Short": "hdl21.primitives/PhysicalShort",
}

MAX_ALTERNATIVES = 96


def kind_ok(mkind, pkind):
    if mkind.startswith("prim:"):
        return PRIM_EXPORT.get(mkind[5:]) == pkind
    if mkind.startswith("ext:"):
        return pkind == mkind[4:]
    return False


def expected_param(kind, name, val):
    """String form (netview.param_str) the package must carry for a program parameter."""
    if kind.startswith("ext:"):
        if isinstance(val, int):
            return f"int64_value:{val}"
        return f"literal:{val}"
    # primitives: ints become prefixed numbers with the unit prefix
    import vlsir

    return f"prefixed:{val}:{int(vlsir.SIPrefix.UNIT)}"


# How a clash is resolved is the elaborator's business (the pinned tree appends underscores; a
# counter or any other `_suffix` is as good): an invented name is its stem, optionally followed by
# an underscore-led suffix, and never a designer's name.
SUFFIX = "(_.*)?"


def seg_regex(seg):
    if seg[0] == "a":
        return re.compile("^" + re.escape(seg[1]) + "_" + str(seg[2]) + SUFFIX + "$")
    return re.compile("^" + re.escape(seg[1]) + "_" + re.escape(seg[2]) + SUFFIX + "$")


class Mismatch(Exception):
    pass


def compare(model, pkgflat, design, top_mid):
    """Returns (ok, details).  details: list of difference strings (empty when ok);
    raises nothing for ordinary differences."""
    first = None
    n = 0
    try:
        for mapping in _alternatives(model, pkgflat):
            n += 1
            diffs = _compare_with(model, pkgflat, mapping)
            if not diffs:
                return True, []
            if diffs[0].startswith("inconclusive"):
                return None, diffs
            if first is None:
                first = diffs
            if n >= MAX_ALTERNATIVES:
                return None, ["too many naming alternatives; inconclusive"] + first
    except Mismatch as e:
        return False, [str(e)]
    if first is None:
        return None, ["no consistent naming found within the enumeration budget; inconclusive"]
    return False, first


def _children(paths):
    """{parent path: [child segment]} from a set of paths."""
    out = {}
    for p in paths:
        for k in range(len(p)):
            out.setdefault(p[:k], [])
            if p[k] not in out[p[:k]]:
                out[p[:k]].append(p[k])
    return out


def _alternatives(model, pkgflat):
    """Generator of naming maps: dict(seg={(model parent path, seg): pkg name},
    bun={(model path, bname, leafpath): pkg signal name})."""
    mnodes = model["nodes"]  # model path -> ("mod", mid) | leaf kind string
    pinsts = pkgflat["insts"]  # pkg path -> module name | kind
    mchildren = _children(mnodes.keys())
    pchildren = _children(pinsts.keys())

    # --- instance segments: resolved top-down, collecting ambiguous choices
    choice_keys, choice_opts = [], []
    fixed = {}

    # We need pkg paths for model paths; with ambiguity the pkg path depends on choices.
    # Ambiguity is rare and local; handle it by enumerating per-parent alternatives lazily:
    # first resolve everything that is unambiguous given exact/stem matching *per module
    # definition name pattern*, independent of the parent's own mapping.
    # name-free shape of a sub-tree: leaf kind, or the sorted shapes of the children
    pleaf = {l["path"]: l["kind"] for l in pkgflat["leaves"]}
    shape_cache = {}

    def mshape(mpath):
        key = ("m", mpath)
        if key not in shape_cache:
            node = mnodes.get(mpath)
            if isinstance(node, str):
                shape_cache[key] = PRIM_EXPORT.get(node[5:]) if node.startswith("prim:") else node[4:]
            else:
                shape_cache[key] = tuple(sorted((mshape(mpath + (c,)) for c in mchildren.get(mpath, [])), key=str))
        return shape_cache[key]

    def pshape(ppath):
        key = ("p", ppath)
        if key not in shape_cache:
            if ppath in pleaf:
                shape_cache[key] = pleaf[ppath]
            else:
                shape_cache[key] = tuple(sorted((pshape(ppath + (c,)) for c in pchildren.get(ppath, [])), key=str))
        return shape_cache[key]

    def resolve(mpath, ppath):
        segs = mchildren.get(mpath, [])
        pnames = list(pchildren.get(ppath, []))
        if len(pnames) != len(segs):
            raise Mismatch(f"instances under {'/'.join(map(str, mpath)) or '<top>'}: design has {sorted(map(str, segs))}, package has {sorted(pnames)}")
        used = set()
        for seg in segs:
            if isinstance(seg, str):
                if seg not in pnames:
                    raise Mismatch(f"instance {'/'.join(map(str, mpath + (seg,)))} missing in package")
                fixed[(mpath, seg)] = seg
                used.add(seg)
        for seg in segs:
            if isinstance(seg, str):
                continue
            rx = seg_regex(seg)
            cands = [n for n in pnames if n not in used and rx.match(n)]
            designer = {s for s in segs if isinstance(s, str)}
            cands = [c for c in cands if c not in designer]
            if not cands:
                cands = [n for n in pnames if n not in used and n not in designer]
            # an element can only be a package instance of the same shape (same devices below it)
            shaped = [c for c in cands if pshape(ppath + (c,)) == mshape(mpath + (seg,))]
            cands = shaped or cands
            if not cands:
                raise Mismatch(f"no package instance for invented element {seg} under {mpath}")
            if len(cands) == 1:
                fixed[(mpath, seg)] = cands[0]
                used.add(cands[0])
            else:
                choice_keys.append((mpath, seg))
                choice_opts.append(cands)
                fixed[(mpath, seg)] = cands[0]  # provisional for descending
        for seg in segs:
            resolve(mpath + (seg,), ppath + (fixed[(mpath, seg)],))

    resolve((), ())

    # --- bundle-leaf anchors
    bun_keys, bun_opts = [], []
    bun_fixed = {}
    msigs = {}
    for a in model["anchors"]:
        if a[0] == "sig":
            msigs.setdefault(a[1], set()).add(a[2])
    bleaves = {}
    for a in model["anchors"]:
        if a[0] == "bun":
            bleaves.setdefault((a[1], a[2], a[3]), 0)
            bleaves[(a[1], a[2], a[3])] = max(bleaves[(a[1], a[2], a[3])], a[4] + 1)
    def mid_of(mpath):
        if not mpath:
            return "top"
        node = mnodes.get(mpath)
        return node[1] if isinstance(node, tuple) else None

    bun_paths = {}  # ambiguity is a property of the module definition, not of each instance path
    if bleaves:
        psignames = {}
        pwidth = {}
        for (pp, name, i) in pkgflat["sigs"]:
            psignames.setdefault(pp, set()).add(name)
            pwidth[(pp, name)] = max(pwidth.get((pp, name), 0), i + 1)
        for (mpath, bname, lp), w in sorted(bleaves.items(), key=str):
            ppath = _map_path(mpath, fixed)
            rx = re.compile("^" + re.escape(bname) + "_" + re.escape("_".join(lp)) + SUFFIX + "$")
            designer = msigs.get(mpath, set())
            cands = sorted(n for n in psignames.get(ppath, ()) if rx.match(n) and n not in designer and pwidth[(ppath, n)] == w)
            if not cands:
                if model["bundle_ports"].get((mpath, bname)) and mpath == ():
                    raise Mismatch(f"flattened top-level bundle port {bname}.{'.'.join(lp)} not found in package")
                continue  # unanchored internal bundle leaf: visible through terminals only
            if len(cands) == 1:
                bun_fixed[(mpath, bname, lp)] = cands[0]
            else:
                dkey = (mid_of(mpath), bname, lp)
                bun_paths.setdefault(dkey, []).append(mpath)
                if dkey not in bun_keys:
                    bun_keys.append(dkey)
                    bun_opts.append(cands)

    # ambiguous bundle leaves are resolved by constraint propagation inside _compare_with
    amb = []
    for key, opts in zip(bun_keys, bun_opts):
        for mp in bun_paths[key]:
            amb.append(((mp, key[1], key[2]), opts))
    if not choice_keys:
        yield {"seg": fixed, "bun": bun_fixed, "amb": amb}
        return
    tried = 0
    for combo in itertools.product(*choice_opts):
        tried += 1
        if tried > 2000:
            return
        segmap = dict(fixed)
        for key, val in zip(choice_keys, combo):
            segmap[key] = val
        seen = set()
        ok = True
        for (mp, seg), name in segmap.items():
            if (mp, name) in seen:
                ok = False
                break
            seen.add((mp, name))
        if ok:
            yield {"seg": segmap, "bun": bun_fixed, "amb": amb}


def _map_path(mpath, segmap):
    out = ()
    for k in range(len(mpath)):
        out = out + (segmap[(mpath[:k], mpath[k])],)
    return out


def _compare_with(model, pkgflat, mapping, limit=6):
    diffs = []
    segmap = mapping["seg"]
    try:
        pleaves = {l["path"]: l for l in pkgflat["leaves"]}
        mleaves = {}
        for l in model["leaves"]:
            mleaves[_map_path(l["path"], segmap)] = l
    except KeyError as e:
        return [f"unmapped path segment {e}"]
    if set(pleaves) != set(mleaves):
        only_m = sorted(map(str, set(mleaves) - set(pleaves)))[:3]
        only_p = sorted(map(str, set(pleaves) - set(mleaves)))[:3]
        return [f"leaf devices differ: only in design {only_m}, only in package {only_p}"]
    pairs = []  # (model net, pkg net, description)
    for path, ml in mleaves.items():
        pl = pleaves[path]
        if not kind_ok(ml["kind"], pl["kind"]):
            diffs.append(f"leaf {path}: kind {ml['kind']} exported as {pl['kind']}")
            continue
        for name, val in ml["params"].items():
            exp = expected_param(ml["kind"], name, val)
            if pl["params"].get(name) != exp:
                diffs.append(f"leaf {path}: parameter {name}={val!r} exported as {pl['params'].get(name)!r}")
        if set(ml["terms"]) != set(pl["terms"]):
            diffs.append(f"leaf {path}: terminals {sorted(ml['terms'])} vs {sorted(pl['terms'])}")
            continue
        for t, mn in ml["terms"].items():
            pairs.append((mn, pl["terms"][t], ("t", path) + t))
    psigs = pkgflat["sigs"]
    for a, mn in model["anchors"].items():
        if a[0] == "sig":
            _, mpath, name, i = a
            key = (_map_path(mpath, segmap), name, i)
            if key not in psigs:
                diffs.append(f"designer signal {name}[{i}] at {mpath} missing in package")
                continue
            pairs.append((mn, psigs[key], ("s",) + key))
        else:
            _, mpath, bname, lp, i = a
            pname = mapping["bun"].get((mpath, bname, lp))
            if pname is None:
                continue
            key = (_map_path(mpath, segmap), pname, i)
            if key not in psigs:
                diffs.append(f"bundle leaf {bname}.{lp}[{i}] at {mpath} missing in package")
                continue
            pairs.append((mn, psigs[key], ("s",) + key))
    # widths of designer signals must agree (package signal not wider than declared)
    for (mpath, name), w in model["sig_widths"].items():
        key = (_map_path(mpath, segmap), name, w)
        if key in psigs:
            diffs.append(f"designer signal {name} at {mpath} is wider in the package than declared ({w})")
    if diffs:
        return diffs
    m2p, p2m = {}, {}
    for mn, pn, what in pairs:
        if mn in m2p and m2p[mn][0] != pn:
            diffs.append(f"net split: {_fmt(m2p[mn][1])} and {_fmt(what)} are one net in the design, two in the package")
        else:
            m2p.setdefault(mn, (pn, what))
        if pn in p2m and p2m[pn][0] != mn:
            diffs.append(f"nets shorted: {_fmt(p2m[pn][1])} and {_fmt(what)} are distinct in the design, one net in the package")
        else:
            p2m.setdefault(pn, (mn, what))
        if limit is not None and len(diffs) >= limit:
            break
    if diffs or not mapping.get("amb"):
        return diffs
    # Ambiguously named bundle leaves (several flattened signals fit several leaves): group them by
    # (path, bundle instance, candidate set) and find, by propagation, an assignment of names to
    # leaves that is consistent with the net bijection established by everything else.
    groups = {}
    for (mpath, bname, lp), opts in mapping["amb"]:
        groups.setdefault((mpath, bname, tuple(opts)), []).append(lp)
    pending = []
    for (mpath, bname, opts), leaves in groups.items():
        ppath = _map_path(mpath, segmap)
        width = max(a[4] for a in model["anchors"] if a[0] == "bun" and a[1] == mpath and a[2] == bname and a[3] == leaves[0]) + 1
        mnets = {lp: [model["anchors"][("bun", mpath, bname, lp, i)] for i in range(width)] for lp in leaves}
        pnets = {nm: [psigs[(ppath, nm, i)] for i in range(width)] for nm in opts}
        pending.append((mpath, bname, leaves, list(opts), mnets, pnets))

    def consistent(pairs_):
        lm, lp_ = {}, {}
        for mn, pn in pairs_:
            if mn in m2p and m2p[mn][0] != pn:
                return False
            if pn in p2m and p2m[pn][0] != mn:
                return False
            if lm.setdefault(mn, pn) != pn or lp_.setdefault(pn, mn) != mn:
                return False
        return True

    def options(g):
        mpath, bname, leaves, opts, mnets, pnets = g
        out = []
        for perm in itertools.permutations(opts, len(leaves)):
            pr = [(mn, pn) for lp, nm in zip(leaves, perm) for mn, pn in zip(mnets[lp], pnets[nm])]
            if consistent(pr):
                out.append(pr)
        return out

    # depth-first search with propagation: groups constrain each other through shared nets, so a
    # free-looking choice for one group can make another impossible; backtrack when that happens
    budget = [4000]

    def solve(pending_):
        if not pending_:
            return True
        budget[0] -= 1
        if budget[0] < 0:
            raise Mismatch("inconclusive")
        # most constrained group first
        scored = sorted(((len(options(g)), i) for i, g in enumerate(pending_)))
        n_opts, gi = scored[0]
        if n_opts == 0:
            return False
        g = pending_[gi]
        rest = pending_[:gi] + pending_[gi + 1 :]
        for pr in options(g):
            added_m, added_p = [], []
            for mn, pn in pr:
                if mn not in m2p:
                    m2p[mn] = (pn, ("s", g[0], g[1], 0))
                    added_m.append(mn)
                if pn not in p2m:
                    p2m[pn] = (mn, ("s", g[0], g[1], 0))
                    added_p.append(pn)
            if solve(rest):
                return True
            for mn in added_m:
                del m2p[mn]
            for pn in added_p:
                del p2m[pn]
        return False

    try:
        ok = solve(pending)
    except Mismatch:
        return ["inconclusive: naming search budget exhausted"]
    if not ok:
        g = pending[0]
        return [f"flattened members of bundles ({', '.join(sorted({str(x[1]) for x in pending}))}): no assignment of the flattened signals to the members is consistent with the rest of the design"]
    return diffs


def _fmt(what):
    if what[0] == "t":
        return "/".join(map(str, what[1])) + "." + str(what[2]) + f"[{what[3]}]"
    return "/".join(map(str, what[1])) + ":" + str(what[2]) + f"[{what[3]}]"
