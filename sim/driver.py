"""Check driver: batches of seeded runs, violation minimisation, replay, evidence."""
import importlib
import json
import os
import sys
import time

from . import minimise, pretty, procs, runner
from .choices import hash64


def profile_mod(name):
    return importlib.import_module("profiles." + name)


def _job(arg):
    pname, mode, seed, opts = arg
    P = profile_mod(pname)
    scn = P.generate(seed, mode, opts) if opts is not None else P.generate(seed, mode)
    if hasattr(P, "run"):
        res = P.run(scn)  # the profile forks its own children (session + fresh oracles)
    else:
        res = procs.in_child(P.execute, scn, timeout=60)
    res["seed"] = seed
    return res


def run_scn(pname, scn, timeout=60):
    return procs.in_child(profile_mod(pname).execute, scn, timeout=timeout)


def sample_of(pname, mode, seed, opts=None):
    P = profile_mod(pname)
    scn = P.generate(seed, mode, opts) if opts is not None else P.generate(seed, mode)
    return {"seed": seed, "sched": scn.get("sched"), "program": pretty.program(scn["ops"])[:60]}


def batch_run(prop, pname, mode, n_runs, tier, verif_seed, opts=None, wall_cap=None, workers=16, stop_on_violation=True, accept=()):
    procs.template_init(with_pdks=(pname == "pdk"))
    batch = runner.Batch(prop, pname, tier, verif_seed)
    batch.accept = set(accept)
    seeds = [hash64(verif_seed, prop, pname, mode, i) % (1 << 48) for i in range(n_runs)]
    idx = [0]

    def on_result(res):
        batch.add(idx[0], res)
        idx[0] += 1
        if stop_on_violation and len(batch.violations) >= 3:
            return "stop"

    procs.run_pool(_job, [(pname, mode, s, opts) for s in seeds], workers=workers, on_result=on_result, wall_cap=wall_cap)
    # samples: decode three non-trivial runs
    for s in seeds[:3]:
        batch.samples.append(sample_of(pname, mode, s, opts))
    return batch


def minimise_violation(pname, scn, finding, budget_s=20.0):
    """Shrink scn['ops'] while the same finding clause persists."""
    P = profile_mod(pname)

    finding = dict(finding)

    def test(ops):
        cand = dict(scn)
        cand["ops"] = ops
        if "top" in cand:
            mids = {op[1] for op in ops if op[0] == "module"}
            if cand["top"] not in mids:
                return False
        try:
            res = procs.in_child(P.execute, cand, timeout=30)
        except procs.ChildFailure:
            return False
        return any(P.same_failure(f, finding) for f in res.get("findings", []))

    ops, stats = minimise.minimise(scn["ops"], test, budget_s)
    out = dict(scn)
    out["ops"] = ops
    # also try the plainest schedule
    if out.get("sched") and out["sched"][0] != "insertion":
        cand = dict(out)
        cand["sched"] = ["insertion", 0]
        try:
            res = procs.in_child(P.execute, cand, timeout=30)
            if any(P.same_failure(f, finding) for f in res.get("findings", [])):
                out = cand
        except procs.ChildFailure:
            pass
    return out, stats


def report_violation(prop, pname, mode, seed, finding, opts=None, budget_s=20.0):
    """Minimise, verify the minimised file replays, write it; returns the path."""
    P = profile_mod(pname)
    scn = P.generate(seed, mode, opts) if opts is not None else P.generate(seed, mode)
    small, stats = minimise_violation(pname, scn, finding, budget_s)
    # replay check of the minimised scenario, fresh child
    final = scn
    try:
        res = procs.in_child(P.execute, small, timeout=30)
        fs = [f for f in res.get("findings", []) if P.same_failure(f, finding)]
        if fs:
            final = small
            finding = fs[0]
    except procs.ChildFailure:
        pass
    payload = {
        "property": prop,
        "profile": pname,
        "seed": seed,
        "finding": finding,
        "minimisation": stats,
        "scenario": final,
        "program": pretty.program(final["ops"]),
    }
    return runner.write_replay(prop, seed, payload), payload


def replay_file(path):
    with open(path) as f:
        payload = json.load(f)
    pname = payload["profile"]
    procs.template_init(with_pdks=(pname == "pdk"))
    P = profile_mod(pname)
    res = procs.in_child(P.execute, payload["scenario"], timeout=60)
    want = payload["finding"]
    hit = [f for f in res.get("findings", []) if P.same_failure(f, want)]
    return payload, res, hit
