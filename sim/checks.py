"""Per-property checks: configuration table, self-tests, known findings, reporting."""
import json
import os
import sys
import time

from . import driver, procs, runner
from .choices import hash64

KNOWN_FINDINGS = os.path.join(runner.ROOT, "known_findings.json")

# property -> list of workloads: (profile, mode, quick runs, thorough runs, opts)
PROPS = {
    "C01": {
        # a design built through a reconnection history or with adversarial names and then
        # exported with the wrong connectivity is a C01 violation as well
        "workloads": [("conn", "c01", 7000, 120000, None), ("conn", "c04", 2000, 30000, None, ("C04",)), ("conn", "c05", 2000, 30000, None, ("C05",)), ("hist", "c08", 1000, 12000, None, ("C08",))],
        "rule": (
            "one case = a generated valid design program (model-guided generator, swarm configuration per run) "
            "executed under a drawn SimSet policy and, in half the runs, after a drawn history prefix; "
            "non-trivial = the reference model calls it well-formed, Hdl21 exported it and it has >= 1 leaf device; "
            "distinct = distinct (program shape hash, set-iteration policy, schedule trace digest)"
        ),
        "assumptions": [
            "reference model sim/refmodel.py (rules R1-R11 of DESIGN section 4) is the meaning of a design program",
            "bit significance of VLSIR targets is the one the vlsirtools netlisters apply (concat parts[0] = MSB)",
            "constructs on contested ground are not generated (list in sim/gen.py docstring)",
            "valid designs that Hdl21 refuses to export are counted (probe valid_design_rejected_*) but are not C01 violations",
        ],
    },
    "C02": {
        "workloads": [("conn", "c02", 8000, 120000, None), ("conn", "c01", 2500, 30000, None)],
        "rule": (
            "one case = a valid generated design with one ill-formedness planted by a single edit: class drawn from {direct / member / port-reference / array width mismatch, "
            "missing or surplus connection, reference to a non-existent port or bundle member, out-of-range index, empty slice, signal owned by another module or by none, "
            "no-connect on a referenced port, circular instantiation, unnamed module, module-name clash} at a site drawn over the hierarchy (top or deep; scalar, slice, concat, "
            "port reference, bundle, anonymous bundle, array, pair connections), in half the runs after valid sub-modules were elaborated earlier; the reference model re-judges "
            "the mutant and only mutants it calls ill-formed count; oracle: to_proto and netlist raise; distinct = distinct (program shape, class, site kind)"
        ),
        "assumptions": [
            "ill-formedness classes are those enumerated in the property statement; one no-connect object on two ports and slice bounds beyond [-w, w] are contested and not planted",
            "a design rejected while it is being built (before elaboration) counts as rejected",
        ],
    },
    "C04": {
        "workloads": [("conn", "c04", 8000, 120000, None)],
        "rule": (
            "one case = a generated design in which every instance port receives 0-3 temporary connections of every connectable kind before its "
            "final one, through connect-by-call / setattr / connect(), replace() and disconnect()+connect, interleaved across ports at random, under a "
            "drawn set-iteration policy; after every operation the live Instance.conns must have the model's keys; the exported partition must equal the model of "
            "the final map; non-trivial = exported and >= 1 leaf; distinct = distinct (program shape, policy, schedule trace)"
        ),
        "assumptions": [
            "the model of an operation history is the dict of the current port -> expression map (sim/refmodel.py Design.apply)",
            "histories end in a complete valid mapping, as the property's quantifier requires",
        ],
    },
    "C05": {
        "workloads": [("conn", "c05", 8000, 120000, None)],
        "rule": (
            "one case = a generated valid design in which 1-4 designer signals / ports / instances / bundle instances were consistently renamed to names the "
            "elaborator would invent for other objects of the same module (inst_port, bundle_member_path, array_k, pair_p/n, 0-2 trailing underscores) or a no-connect was "
            "named after an existing signal; oracle = partition equality with name-agnostic matching of invented names; an exception is accepted; "
            "distinct = distinct (program shape, policy, schedule trace)"
        ),
        "assumptions": [
            "a clash may be resolved by a fresh name or by raising; raising is counted, not flagged",
            "invented names are matched by stem + trailing underscores or, failing that, by structure - never assumed",
        ],
    },
    "C06": {
        "workloads": [("conn", "c01", 3000, 40000, None), ("conn", "c05", 3000, 40000, None), ("hist", "c08", 800, 10000, None), ("examples", "c06", 1200, 15000, None), ("ns", "c18", 4000, 50000, None), ("conn", "c02", 2500, 40000, None), ("genp", "c09", 1500, 20000, None)],
        "rule": (
            "the closedness monitor (sim/netview.py closed_violations: unique names, definition before use, every port names a declared signal, every instance "
            "target resolves and has each port connected exactly once, every connection target declared / in range / of the port's width, from_proto and the spice and "
            "spectre netlisters accept) evaluated on every package produced by: valid generated designs, adversarially named designs, sessions with injected "
            "failures (packages returned after a failure), and sessions over /repo/examples and the built-in generators; distinct = distinct scenario signatures"
        ),
        "assumptions": [
            "netlister acceptance is not demanded of packages that contain generic physical primitives (vlsirtools refuses those by design)",
            "PDK-compiled designs are monitored by the C15 check, not here",
        ],
    },
    "C07": {
        # a result that depends on an earlier *failed* call is a history dependence too
        "workloads": [("hist", "c07", 2200, 36000, None), ("hist", "c08", 1500, 12000, None, ("C08",))],
        "rule": (
            "one case = a session: a generated DAG library of 2-6 modules with shared sub-modules, bundle ports and port references, "
            "interleaved with elaborate / to_proto / netlist calls on single targets and lists, repeated, plus refused late edits; "
            "non-trivial = >= 2 calls and >= 1 module touched by >= 2 calls; distinct = distinct (library shape hash, call sequence, schedule trace digest)"
        ),
        "assumptions": [
            "the fresh-process oracle is a fork of a pristine template process (hdl21 imported, nothing built)",
            "valid designs only; a session whose design Hdl21 refuses to build is discarded and counted",
            "sampling of histories, not the exhaustive-for-five-modules reading of the quantifier",
        ],
    },
    "C08": {
        # generator bodies that raise (or are interrupted) on their first runs are exercised by the genp workload
        "workloads": [("hist", "c08", 2300, 36000, None), ("genp", "c09", 2000, 30000, None)],
        "rule": (
            "one case = a C07 session with 0-2 injected failures (fault pass at a drawn pass position and module; exception inside a subclassed "
            "rewriting pass between pop and reconnect; planted width fault with later repair) each followed by drawn continuations "
            "(retry unchanged, remove the cause and retry, unrelated design, sibling design); non-trivial = at least one call actually failed; "
            "distinct = distinct (library shape, call sequence, fault plan, schedule trace digest)"
        ),
        "assumptions": [
            "fresh-process oracle = fork of the pristine template, design as the script describes it at that point, default elaborator",
            "faults are injected where the property says exceptions can arise: custom pass lists, overridable pass methods, design errors",
            "a design containing an offending module may be refused forever; it must never be exported differently from fresh, nor report a circular dependency",
        ],
    },
    "C09": {
        "workloads": [("genp", "c09", 6000, 100000, None)],
        "rule": (
            "one case = 1-4 generators (param-class shapes: int+str; optional strings + float; nested param-class + enum + Scalar; Instantiable-valued + int; bodies: build, call another "
            "generator, return another generator's module, raise on the first n runs) and 4-20 calls by keywords or by instance, with adversarial values (strings containing spaces and '=', "
            "strings built from other parameters' k=v text, 'None' vs None, values that push the readable name past 128 characters, differently written equal numbers), direct calls of the "
            "callee with the parameters an outer generator derives, junk allocation and exports; the whole call sequence is executed a second time in another pristine child in a different "
            "order; non-trivial = >= 1 cache hit or >= 1 raising body; distinct = distinct (generator set, call sequence)"
        ),
        "assumptions": [
            "model = dict keyed by (generator, parameter instance) under Python == of the real param-class instances",
            "injectivity of the naming function is checked over the pairs of parameter values that occur in one run (workload coverage, not exhaustive)",
            "pass-through generator bodies derive the callee's parameters injectively; NaN parameters and same-named Module-valued parameters are not generated",
        ],
    },
    "C12": {
        "workloads": [("order", "c12", 1800, 30000, None), ("genp", "c09", 2500, 30000, None)],
        "post": "c12_layer2",
        "rule": (
            "one case = a generated design program built and exported in 4-6 pristine children that differ only in the scheduler's "
            "set-iteration policy / key stream, junk allocation and an unrelated earlier elaboration; compared: serialized package bytes and "
            "spice / spectre / verilog netlist text; non-trivial = the children realised >= 2 distinct schedule traces (choice points over >= 2 elements); "
            "distinct = distinct (program shape hash, set of schedule trace digests). Layer 2 re-runs a sample in real interpreters under 8-24 PYTHONHASHSEED values"
        ),
        "assumptions": [
            "an order obtained by sorting a set's elements on arbitrary per-element keys is an order some process can exhibit (keys play the role of hashes)",
            "the attribute seam sees every set stored on a connectable object; sets local to a function are only visible to layer 2",
            "layer 2 runs with a minimal fixed environment; ASLR is left on there, so layer 2 also samples address-space layouts",
        ],
    },
    "C15": {
        "workloads": [("pdk", "c15", 5000, 80000, None)],
        "rule": (
            "one case = a session over a template process in which the four PDK packages are imported but unregistered: registration in a drawn order, optional set_default, optional "
            "earlier elaborate / export, 1-3 compilations of a 1-3 module hierarchy with shared sub-modules (via the default PDK, by name, by module, or the PDK's own compile; on the top, "
            "on a list, or leaf first), sometimes followed by another PDK, then export and spice / spectre netlisting; primitives are drawn from the target PDK's own tables (type/family/"
            "threshold path and model-name path, sizes given or defaulted, multipliers), mixed with instances that must stay untouched; 1/8 of the requests are unsatisfiable; "
            "oracle: snapshot of names / connections / targets before vs after, independent table selector, device ports = connected ports, equal parameters -> same call object, "
            "second compile is a no-op, descriptive error for unsatisfiable requests; distinct = distinct (design, session)"
        ),
        "assumptions": [
            "device tables are sampled (every entry is reachable); the exhaustive-per-entry reading of the quantifier and the ~3,100 logic cells are not covered by this technique",
            "table entries whose device has a port no generic primitive has are a recorded known finding and are excluded from the random search (3 committed replays)",
            "an ambiguous type/family/threshold request (several table entries match) may be refused with a descriptive error",
        ],
    },
    "C18": {
        "workloads": [("ns", "c18", 30000, 400000, None)],
        "rule": (
            "one case = a history of 5-40 operations on one Module (3/4) or Bundle (1/4): setattr / add(val) / add(val, name=) with names from a 4-letter alphabet and values of "
            "every attribute kind (signal, port of each direction, instance, array, instance bundle, bundle instance, bundle port), get, and operations that must be rejected "
            "(reserved names, non-HDL values, del, sub-classing, unnamed / doubly named add, additions after a scheduler-placed elaborate); after every operation get(), attribute "
            "access, the per-kind views, the namespace, port visibility and _parent_module are compared with a dict model; rejected operations must change nothing; the final export "
            "equals the class-style definition of the model's content; non-trivial = >= 2 names live; distinct = distinct operation sequences"
        ),
        "assumptions": [
            "each value object is used under one name only (the property says each name denotes one object, not the converse)",
            "after a mid-history elaborate only the rejection of further additions is checked (views legitimately change by flattening)",
        ],
    },
}


def c12_layer2(tier, verif_seed):
    """Layer 2 of C12: real interpreters, real sets, different hash seeds and allocation."""
    from profiles import order

    n_prog = 150 if tier == "quick" else 1200
    n_int = 8 if tier == "quick" else 24
    seeds = [hash64(verif_seed, "c12-layer2", i) % (1 << 48) for i in range(n_prog)]
    hash_seeds = [0] + [1 + hash64(verif_seed, "hs", i) % 4000000000 for i in range(n_int - 1)]
    findings = []
    compared = 0
    for lo in range(0, n_prog, 200):
        results, f = order.layer2_run(seeds[lo : lo + 200], hash_seeds, verif_seed)
        findings += f
        compared += sum(1 for v in results[0][2].values() if not isinstance(v.get("proto", []), list) and "build_exc" not in v)
    cov = {"layer2": {"real_interpreters": n_int, "hash_seeds": hash_seeds[:8], "programs": n_prog, "programs_exported_and_compared": compared, "divergences": len(findings)}}
    return findings, cov


def load_known():
    if not os.path.exists(KNOWN_FINDINGS):
        return []
    with open(KNOWN_FINDINGS) as f:
        return json.load(f).get("findings", [])


def digest_of(res):
    keep = {k: res.get(k) for k in ("findings", "probes", "sig", "discard", "rejected", "n_ops", "leaves")}
    if res.get("sched"):
        keep["sched"] = res["sched"]
    return hash64(json.dumps(keep, sort_keys=True, default=str))


def _selftest_job(arg):
    pname, mode, seed, opts = arg
    res = driver._job(arg)
    return {"seed": seed, "digest": digest_of(res), "cp": (res.get("sched") or {}).get("choice_points", 0), "lib_out": res.get("lib_out")}


def selftest(prop, workloads, n=32, verif_seed=0):
    """Determinism of the harness: every seed executed twice (different workers) must give
    the identical digest.  Returns (ok, message)."""
    jobs = []
    for wl in workloads:
        pname, mode, opts = wl[0], wl[1], wl[4]
        for i in range(n):
            jobs.append((pname, mode, hash64(verif_seed, "selftest", prop, pname, mode, i) % (1 << 48), opts))
    a = procs.run_pool(_selftest_job, jobs, workers=16)
    b = procs.run_pool(_selftest_job, list(reversed(jobs)), workers=7)
    b = list(reversed(b))
    for x, y in zip(a, b):
        if "harness_error" in x or "harness_error" in y:
            return False, f"harness error in selftest: {x.get('harness_error') or y.get('harness_error')}"
        if x["digest"] != y["digest"] and x.get("lib_out") is not None and x.get("lib_out") != y.get("lib_out"):
            # same scenario, same schedules, same interpreter settings - and the library returned
            # different bytes: not a harness matter.  (C12 decides it in the batches below.)
            return None, f"seed {x['seed']}: two executions of one scenario got different output from the library"
        if x["digest"] != y["digest"]:
            return False, f"non-deterministic run: seed {x['seed']} gave digests {x['digest']} and {y['digest']}"
    return True, f"{len(jobs)} seeds x 2 executions identical"


def run_check(prop, tier, verif_seed, runs_override=None):
    cfg = PROPS[prop]
    t0 = time.monotonic()
    procs.template_init(with_pdks=any(w[0] == "pdk" for w in cfg["workloads"]))
    ok, msg = selftest(prop, cfg["workloads"], n=24 if tier == "quick" else 64, verif_seed=verif_seed)
    print(f"[{prop}] determinism self-test: {msg}", flush=True)
    library_nondet = ok is None and prop == "C12"
    if not ok and not library_nondet:
        print(f"HARNESS-ERROR property={prop} {msg}")
        return 2
    known = [k for k in load_known() if k["property"] == prop and k["status"] == "known"]
    known_lines = []
    for k in known:
        payload, res, hit = driver.replay_file(os.path.join(runner.ROOT, k["replay"]))
        if hit:
            line = f"KNOWN-FINDING: property={prop} {k['what']}"
            print(line, flush=True)
            known_lines.append(line)
        else:
            print(f"[{prop}] note: known finding no longer reproduces: {k['what']}", flush=True)
    total = None
    first_violation = None
    batches = []
    for wl in cfg["workloads"]:
        pname, mode, nq, nt, opts = wl[:5]
        accept = wl[5] if len(wl) > 5 else ()
        n = runs_override or (nq if tier == "quick" else nt)
        cap = min(75, 450 // len(cfg["workloads"])) if tier == "quick" else min(900, 2400 // len(cfg["workloads"]))
        batch = driver.batch_run(prop, pname, mode, n, tier, verif_seed, opts=opts, wall_cap=cap, accept=accept)
        batches.append((pname, mode, opts, batch))
        print(
            f"[{prop}] {pname}/{mode}: {batch.runs} runs, {len(batch.sigs)} distinct non-trivial, "
            f"{batch.discards} discarded, {len(batch.violations)} violations, {len(batch.harness_errors)} harness errors, {batch.wall():.1f}s",
            flush=True,
        )
        if batch.violations and first_violation is None:
            first_violation = (pname, mode, opts, batch.violations[0])
    # merge batches for evidence
    main = batches[0][3]
    for _p, _m, _o, b in batches[1:]:
        main.runs += b.runs
        main.discards += b.discards
        main.harness_errors += b.harness_errors
        main.violations += b.violations
        main.sigs |= b.sigs
        main.ops_total += b.ops_total
        main.samples += b.samples
        for k, v in b.probes.items():
            main.probes[k] = main.probes.get(k, 0) + v
        for k, v in b.faults.items():
            main.faults[k] = main.faults.get(k, 0) + v
        for k in ("choice_points", "nonidentity"):
            main.sched[k] += b.sched[k]
        for k in ("by_site", "by_size", "policies"):
            for kk, vv in b.sched[k].items():
                main.sched[k][kk] = main.sched[k].get(kk, 0) + vv
        for kk, vv in b.ops_hist.items():
            main.ops_hist[kk] = main.ops_hist.get(kk, 0) + vv
    main.t0 = t0
    main.samples = main.samples[:4]
    post_cov = {}
    if cfg.get("post"):
        try:
            pf, post_cov = globals()[cfg["post"]](tier, verif_seed)
        except procs.ChildFailure as e:
            print(f"HARNESS-ERROR property={prop} {e}")
            return 2
        print(f"[{prop}] post stage {cfg['post']}: {json.dumps(post_cov)[:300]}", flush=True)
        if pf and first_violation is None:
            f = pf[0]
            path = runner.write_replay(prop, f"layer2-{f['seed']}", {"property": prop, "profile": "order-layer2", "finding": f, "how_to_replay": "PYTHONHASHSEED=<a> vs <b> /venv/bin/python -c order.LAYER2_SCRIPT '[seed]' <junk>", "seed": f["seed"]})
            print(f"[{prop}] {f['detail'][0]}")
            print(f"VIOLATION property={prop} replay={path}", flush=True)
            main.violations.append((0, f["seed"], f))
            post_violation = True
        else:
            post_violation = False
    else:
        post_violation = False
    harness = list(main.harness_errors)
    rc = 1 if post_violation else 0
    if first_violation is not None:
        pname, mode, opts, (idx, seed, finding) = first_violation
        path, payload = driver.report_violation(prop, pname, mode, seed, finding, opts)
        print(f"[{prop}] violated clause: {payload['finding']['clause']}")
        for d in payload["finding"]["detail"][:4]:
            print(f"[{prop}]   {d}")
        print(f"[{prop}] minimised program ({payload['minimisation']}):")
        for line in payload["program"][:60]:
            print(f"[{prop}]   {line}")
        print(f"VIOLATION property={prop} replay={path}", flush=True)
        rc = 1
    extra = dict(cfg.get("extra_cov") or {})
    extra.update(post_cov)
    runner.write_evidence(main, cfg["rule"], cfg["assumptions"], extra_cov=extra, known=known_lines)
    if harness:
        print(f"[{prop}] {len(harness)} harness errors, first:\n{harness[0][-1500:]}")
        if rc == 0 and len(harness) > max(3, main.runs // 200):
            print(f"HARNESS-ERROR property={prop} too many harness errors")
            rc = 2
    if rc == 0 and library_nondet:
        print(f"HARNESS-ERROR property={prop} the self-test saw the library return different output for one scenario, and no batch confirmed it")
        rc = 2
    if rc == 0 and main.runs == 0:
        print(f"HARNESS-ERROR property={prop} no runs completed")
        rc = 2
    print(f"[{prop}] done rc={rc} wall={time.monotonic() - t0:.1f}s evidence={runner.EVIDENCE_DIR}/{prop}.json", flush=True)
    return rc


def main(argv):
    if not argv:
        print(__doc__)
        return 2
    if argv[0] == "replay":
        payload, res, hit = driver.replay_file(argv[1])
        prop = payload["property"]
        print(json.dumps({"findings": res.get("findings"), "discard": res.get("discard"), "rejected": res.get("rejected")}, indent=1, default=str))
        if hit:
            print(f"VIOLATION property={prop} replay={argv[1]}")
            return 1
        print(f"[{prop}] replay did not reproduce the recorded finding")
        return 0
    if argv[0] == "selftest":
        procs.template_init()
        rc = 0
        for prop, cfg in PROPS.items():
            if any(w[0] == "pdk" for w in cfg["workloads"]):
                continue
            ok, msg = selftest(prop, cfg["workloads"], n=4)
            print(f"[selftest] {prop}: {msg}")
            if not ok:
                rc = 2
        return rc
    prop = argv[0]
    if prop not in PROPS:
        print(f"unknown property {prop}")
        return 2
    tier = os.environ.get("VERIF_TIER", "quick")
    if "--tier" in argv:
        tier = argv[argv.index("--tier") + 1]
    seed = int(os.environ.get("VERIF_SEED", "0"))
    if "--seed" in argv:
        seed = int(argv[argv.index("--seed") + 1])
    runs = int(argv[argv.index("--runs") + 1]) if "--runs" in argv else None
    return run_check(prop, tier, seed, runs)
