"""The choice tape: the single source of randomness of a run (DESIGN §3.2).

Every random decision of scenario generation goes through `Choices.draw`.  A run is
identified by one integer (its seed); generation is a pure function of that integer.
Nothing in this module reads a clock, and logging never draws.
"""
import hashlib
import random


def hash64(*parts) -> int:
    """Stable 64-bit hash of a tuple of printable parts (process independent)."""
    s = "\x1f".join(str(p) for p in parts).encode()
    return int.from_bytes(hashlib.blake2b(s, digest_size=8).digest(), "big")


class Choices:
    def __init__(self, seed=None, tape=None):
        self.seed = seed
        self.rng = random.Random(seed) if tape is None else None
        self.tape = list(tape) if tape is not None else []
        self.pos = 0

    def draw(self, n: int, label: str = "") -> int:
        """An integer in range(n)."""
        if n <= 1:
            return 0
        if self.pos < len(self.tape):
            v = self.tape[self.pos] % n
        elif self.rng is not None:
            v = self.rng.randrange(n)
            self.tape.append(v)
        else:  # replaying a (shortened) tape: pad with zeros
            v = 0
            self.tape.append(0)
        self.pos += 1
        return v

    # Conveniences, all built on `draw`
    def chance(self, num: int, den: int, label: str = "") -> bool:
        return self.draw(den, label) < num

    def pick(self, seq, label: str = ""):
        return seq[self.draw(len(seq), label)]

    def rint(self, lo: int, hi: int, label: str = "") -> int:
        """Integer in [lo, hi] inclusive."""
        return lo + self.draw(hi - lo + 1, label)

    def weighted(self, pairs, label: str = ""):
        """pairs: [(weight, value)]"""
        tot = sum(w for w, _ in pairs)
        k = self.draw(tot, label)
        for w, v in pairs:
            if k < w:
                return v
            k -= w
        return pairs[-1][1]

    def shuffle(self, lst, label: str = ""):
        lst = list(lst)
        for i in range(len(lst) - 1, 0, -1):
            j = self.draw(i + 1, label)
            lst[i], lst[j] = lst[j], lst[i]
        return lst
