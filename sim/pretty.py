"""Human-readable rendering of design programs (for replay files and debugging)."""


def px(x):
    k = x[0]
    if k == "s" or k == "b":
        return x[1]
    if k == "sl":
        return f"{px(x[1])}[{x[2]}]"
    if k == "sr":
        f = lambda v: "" if v is None else str(v)
        st = f":{x[4]}" if x[4] is not None else ""
        return f"{px(x[1])}[{f(x[2])}:{f(x[3])}{st}]"
    if k == "cat":
        return "Concat(" + ", ".join(px(p) for p in x[1:]) + ")"
    if k == "pr":
        return f"{x[1]}.{x[2]}"
    if k == "nc":
        return f"NoConn#{x[1]}" + (f"(name={x[2]!r})" if x[2] else "()")
    if k == "br":
        return ".".join([x[1]] + list(x[2:]))
    if k == "an":
        return f"Anon#{x[1]}(" + ", ".join(f"{a}={px(b)}" for a, b in x[2].items()) + ")"
    if k == "d":
        return "{" + ", ".join(f"{a}: {px(b)}" for a, b in x[1].items()) + "}"
    if k == "m":
        return f"memo#{x[1]}<{px(x[2])}>"
    if k == "xs":
        return f"M{x[1]}.{x[2]}"
    if k == "os":
        return f"Signal(width={x[1]})  # never added"
    return str(x)


def pt(t):
    if t[0] == "mod":
        return f"M#{t[1]}"
    if t[0] == "prim":
        return f"{t[1]}({', '.join(f'{k}={v}' for k, v in t[2].items())})"
    return f"X{t[1]}({', '.join(f'{k}={v}' for k, v in t[2].items())})"


def pconns(c):
    return ", ".join(f"{p}={px(x)}" for p, x in c.items())


def pop(op):
    k = op[0]
    if k == "bundle":
        return f"bundle B#{op[1]} {op[2]}: sigs={op[3]} subs={op[4]}"
    if k == "ext":
        return f"ext X{op[1]} {op[2]}: ports={op[3]}"
    if k == "module":
        return f"module M#{op[1]} name={op[2]!r} style={op[3]}"
    if k == "end":
        return f"end M#{op[1]}"
    if k == "sig":
        return f"  M#{op[1]}.{op[2]} = {'Port' if op[4]=='p' else 'Signal'}(width={op[3]}, dir={op[5]})"
    if k == "bun":
        how = {"mul": "  [one of 3 * B()]", "flip": "  [flipped(B())]"}.get(op[6] if len(op) > 6 else "ctor", "")
        return f"  M#{op[1]}.{op[2]} = B#{op[3]}(port={op[4]}, flipped={op[5]}){how}"
    if k == "inst":
        return f"  M#{op[1]}.{op[2]} = {pt(op[3])}({pconns(op[5])})  [{op[4]}]"
    if k == "arr":
        return f"  M#{op[1]}.{op[2]} = {op[4]} * {pt(op[3])}({pconns(op[6])})  [{op[5]}]"
    if k == "pair":
        return f"  M#{op[1]}.{op[2]} = Pair({pt(op[3])})({pconns(op[4])})"
    if k == "conn":
        return f"  M#{op[1]}.{op[2]}.{op[3]} = {px(op[4])}  [{op[5]}]"
    if k == "disc":
        return f"  M#{op[1]}.{op[2]}.disconnect({op[3]!r})"
    if k == "repl":
        return f"  M#{op[1]}.{op[2]}.replace({op[3]!r}, {px(op[4])})"
    if k == "readd" and len(op) == 4:
        return f"  M#{op[1]}.{op[2]} = M#{op[1]}.{op[2]}  [again: {op[3]}]"
    return "> " + " ".join(str(a) for a in op)


def program(ops):
    return [pop(op) for op in ops]
