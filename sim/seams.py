"""Seams between Hdl21 and the simulator (DESIGN §3.3).

S seam: every builtin `set` stored on a connectable object is replaced by a `SimSet`,
whose iteration order is decided by the run's scheduler (`Sched`), not by CPython's
hash-slot order.  Nothing else of Hdl21 is substituted.

F seam: fault passes built on the public `ElabPass` / `Elaborator` API.
"""
import sys
import random
from collections.abc import MutableSet


class InjectedFault(RuntimeError):
    """The exception raised by every injected fault."""


class InjectedValueFault(ValueError):
    """An injected fault that is not a RuntimeError (as a bad index or a failed conversion would be)."""


class InjectedAbort(BaseException):
    """User code that is interrupted rather than failing (SystemExit / KeyboardInterrupt style):
    raised by some generator bodies."""


# ----------------------------------------------------------------------------------
# Scheduler: owns the per-element keys (the simulated hashes) and the choice-point log
# ----------------------------------------------------------------------------------

POLICIES = ("insertion", "reverse", "random", "clustered")


class Sched:
    def __init__(self, policy="insertion", seed=0):
        assert policy in POLICIES
        self.policy = policy
        self.rng = random.Random(seed)  # consumed only by key assignment
        self.keys = {}  # element -> key  (insertion-ordered dict, lookups only)
        self.seq = 0
        self.owner_rank = {}  # id(owner inst) -> rank (clustered policy)
        # statistics / trace (never influences execution)
        self.choice_points = 0  # iterations over >= 2 elements
        self.nonidentity = 0  # ... whose order differs from insertion order
        self.by_site = {}
        self.by_size = {}
        self.trace = []  # (site, perm) for the first few
        self.trace_digest = 0

    def key(self, elem):
        k = self.keys.get(elem)
        if k is None:
            self.seq += 1
            if self.policy == "insertion":
                k = (self.seq,)
            elif self.policy == "reverse":
                k = (-self.seq,)
            elif self.policy == "random":
                k = (self.rng.random(), self.seq)
            else:  # clustered: random within owner instance, instances in random order
                inst = getattr(elem, "inst", None)
                oid = id(inst) if inst is not None else id(elem)
                r = self.owner_rank.get(oid)
                if r is None:
                    r = self.owner_rank[oid] = self.rng.random()
                k = (r, self.rng.random(), self.seq)
            self.keys[elem] = k
        return k

    def log(self, site, order, n):
        self.choice_points += 1
        ident = all(order[i] == i for i in range(n))
        if not ident:
            self.nonidentity += 1
        self.by_site[site] = self.by_site.get(site, 0) + 1
        self.by_size[n] = self.by_size.get(n, 0) + 1
        if len(self.trace) < 40:
            self.trace.append([site, list(order)])
        # cheap order-sensitive digest, stable across processes
        d = self.trace_digest
        for ch in site:
            d = (d * 1000003 + ord(ch)) & 0xFFFFFFFFFFFF
        for o in order:
            d = (d * 1000003 + o + 1) & 0xFFFFFFFFFFFF
        self.trace_digest = d

    def stats(self):
        return {
            "policy": self.policy,
            "choice_points": self.choice_points,
            "nonidentity": self.nonidentity,
            "by_site": dict(sorted(self.by_site.items())),
            "by_size": {str(k): v for k, v in sorted(self.by_size.items())},
            "trace_digest": self.trace_digest,
            "elements_keyed": self.seq,
        }


# The scheduler of the current run.  Set by `set_sched` in the run child.
_SCHED = Sched()


def set_sched(s: Sched):
    global _SCHED
    _SCHED = s


def get_sched() -> Sched:
    return _SCHED


class SimSet(MutableSet):
    """A set whose iteration order is the scheduler's.

    Guarantees of a real `set` that are kept: order is stable between mutations,
    identical on repeated iteration, consistent across sets for common elements (keys
    belong to elements), and survives remove + re-add.  Nothing more is promised.
    """

    __slots__ = ("_d", "_site")

    def __init__(self, site="?", initial=()):
        self._d = {}
        self._site = site
        for x in initial:
            self._d[x] = None

    def __contains__(self, x):
        return x in self._d

    def __len__(self):
        return len(self._d)

    def __iter__(self):
        n = len(self._d)
        if n < 2:
            return iter(list(self._d))
        s = _SCHED
        elems = list(self._d)
        idx = sorted(range(n), key=lambda i: s.key(elems[i]))
        try:
            caller = sys._getframe(1).f_code.co_name
        except Exception:  # pragma: no cover
            caller = "?"
        s.log(self._site + "@" + caller, idx, n)
        return iter([elems[i] for i in idx])

    def add(self, x):
        self._d[x] = None

    def discard(self, x):
        self._d.pop(x, None)

    def remove(self, x):
        # builtin set.remove raises KeyError for a missing element
        del self._d[x]

    def clear(self):
        self._d.clear()

    def copy(self):
        return SimSet(self._site, self._d)

    def __repr__(self):
        return f"SimSet({list(self._d)!r})"


def _wrap_init(cls, name):
    orig = cls.__dict__[name]
    cname = cls.__name__

    def wrapped(self, *a, **kw):
        rv = orig(self, *a, **kw)
        d = self.__dict__
        for k, v in list(d.items()):
            if type(v) is set:
                d[k] = SimSet(cname + "." + k, v)
        return rv

    wrapped.__name__ = getattr(orig, "__name__", name)
    wrapped.__qualname__ = getattr(orig, "__qualname__", name)
    wrapped.__doc__ = getattr(orig, "__doc__", None)
    wrapped.__wrapped__ = orig
    wrapped.__verif_seam__ = True
    setattr(cls, name, wrapped)


def connectable_classes(h):
    """All classes reachable from the hdl21 package namespace (and its sub-modules) that
    carry `__connectable__`.  Found by walking, not by a hand-written list."""
    out = {}
    for modname, mod in list(sys.modules.items()):
        if modname != "hdl21" and not modname.startswith("hdl21."):
            continue
        for v in list(vars(mod).values()):
            if isinstance(v, type) and v.__dict__.get("__connectable__", False):
                out[v.__module__ + "." + v.__qualname__] = v
            elif isinstance(v, type) and getattr(v, "__connectable__", False):
                out[v.__module__ + "." + v.__qualname__] = v
    return [out[k] for k in sorted(out)]


def install_set_seam(h):
    """Install the S seam. Returns the sorted list of class names patched."""
    patched = []
    for cls in connectable_classes(h):
        target = None
        if "__post_init__" in cls.__dict__:
            target = "__post_init__"
        elif "__init__" in cls.__dict__:
            target = "__init__"
        if target is None:
            continue
        if getattr(cls.__dict__[target], "__verif_seam__", False):
            patched.append(cls.__name__)
            continue
        _wrap_init(cls, target)
        patched.append(cls.__name__)
    return sorted(patched)


# ----------------------------------------------------------------------------------
# F seam: fault passes
# ----------------------------------------------------------------------------------

DEFAULT_NPASSES = 10


def default_passes(h):
    return list(h.elab.Elaborator.default().passes)


def make_boundary_fault(h, module_obj, label, counter, dirty=False, abort=False, valuefault=False):
    """A fresh `ElabPass` subclass (own done-set) that raises when it visits `module_obj`
    (visit order is the pass's own depth-first order).  `dirty`: it is a *rewriting* pass that
    fails half-way: one signal of the module has been widened by a bit when the exception is
    raised, so the module must never be exported afterwards (C08)."""
    from hdl21.elab.passes.base import ElabPass

    class BoundaryFault(ElabPass):
        def elaborate_module(self, module):
            if module is module_obj:
                counter["raised"] = counter.get("raised", 0) + 1
                if dirty:
                    victims = list(module.signals.values()) + list(module.ports.values())
                    if victims:
                        victims[0].width = victims[0].width + 1
                        counter["dirty_rewrite"] = counter.get("dirty_rewrite", 0) + 1
                if abort:  # the pass is interrupted rather than failing (KeyboardInterrupt style)
                    counter["aborted"] = counter.get("aborted", 0) + 1
                    raise InjectedAbort(f"injected interruption {label}")
                if valuefault:  # an exception class other than RuntimeError
                    raise InjectedValueFault(f"injected fault {label}")
                raise InjectedFault(f"injected fault {label}")
            return module

    BoundaryFault.__name__ = "BoundaryFault"
    return BoundaryFault


def make_midpass_fault(h, base_name, nth, label, counter):
    """Subclass of a real rewriting pass that raises from `flatname` on its nth call,
    i.e. between "popped the array / bundle / instance-bundle" and "reconnected its
    replacement"."""
    import sys as _sys

    P = _sys.modules["hdl21.elab.passes"]

    base = getattr(P, base_name, None)
    if base is None:  # the library has no pass of that name (any more): nothing to interrupt
        return None
    state = {"n": 0}

    class MidFault(base):
        def flatname(self, *a, **kw):
            state["n"] += 1
            if state["n"] == nth:
                counter["raised"] = counter.get("raised", 0) + 1
                counter["mid_rewrite"] = counter.get("mid_rewrite", 0) + 1
                raise InjectedFault(f"injected fault {label}")
            return base.flatname(self, *a, **kw)

    MidFault.__name__ = "Mid" + base_name
    return MidFault


def build_faulty_elaborator(h, kind, pos, fault_cls):
    """kind 'boundary': insert fault_cls at position pos of the default list.
    kind 'mid': replace the first occurrence of its base class."""
    passes = default_passes(h)
    if kind == "boundary":
        passes = passes[:pos] + [fault_cls] + passes[pos:]
    else:
        base = fault_cls.__mro__[1]
        passes = [fault_cls if p is base else p for p in passes]
    return h.elab.Elaborator(passes=passes)
