"""Process model (DESIGN §3.1): one run = one forked interpreter = one integer.

`template_init()` turns the calling process into the pristine template ("a fresh
process"): hdl21 imported, seams installed, PDK registry emptied, automatic GC off.
`in_child(fn, arg)` executes `fn(arg)` in a fork of the caller and returns its JSON
result; workers of the pool never execute Hdl21 code themselves, so every run starts from
the pristine image and cannot depend on earlier runs.
"""
import faulthandler
import gc
import json
import os
import select
import signal
import sys
import time
import traceback
from concurrent.futures import ProcessPoolExecutor
import multiprocessing

_TEMPLATE = {}


def template_init(with_pdks=False):
    if _TEMPLATE.get("done") and (not with_pdks or _TEMPLATE.get("pdks")):
        return _TEMPLATE
    sys.setrecursionlimit(10000)
    import hdl21 as h
    import vlsirtools  # noqa
    from . import seams

    repo = os.environ.get("VERIF_REPO", "/repo")
    if not os.path.abspath(h.__file__).startswith(os.path.abspath(repo) + os.sep):
        raise RuntimeError(f"hdl21 imported from {h.__file__}, expected under {repo}")
    patched = seams.install_set_seam(h)
    _TEMPLATE["h"] = h
    _TEMPLATE["seam_classes"] = patched
    if with_pdks:
        repo = os.environ.get("VERIF_REPO", "/repo")
        for p in ("Sky130", "Gf180", "Asap7"):
            d = f"{repo}/pdks/{p}"
            if d not in sys.path:
                sys.path.insert(0, d)
        import hdl21.pdk.sample_pdk as sample_pdk  # noqa
        import sky130_hdl21  # noqa
        import gf180_hdl21  # noqa
        import asap7_hdl21  # noqa

        _TEMPLATE["pdks"] = True
    # the PDK registry starts empty: registration is a scheduled operation
    from hdl21.pdk import pdk as _pdk

    _TEMPLATE["pdk_registry_reset"] = reset_pdk_registry(_pdk)
    gc.collect()
    gc.disable()
    gc.freeze()
    _TEMPLATE["done"] = True
    return _TEMPLATE


class ChildFailure(Exception):
    pass


def reset_pdk_registry(_pdk):
    """Empty the library's PDK registry.  There is no public call for it, and what the private
    manager object is called is the library's business: every module-level object of
    `hdl21.pdk.pdk` whose attributes are containers of python modules (or a python module: the
    default) is emptied.  Returns True if something that looks like the registry was found."""
    import types

    found = False
    for name, obj in list(vars(_pdk).items()):
        if name.startswith("__") or isinstance(obj, (types.ModuleType, type, types.FunctionType)):
            continue
        d = getattr(obj, "__dict__", None)
        if not isinstance(d, dict):
            continue
        ismod = lambda x: isinstance(x, types.ModuleType)  # noqa
        for k, v in list(d.items()):
            if isinstance(v, (set, list)) and all(ismod(x) for x in v):
                v.clear()
                found = True
            elif isinstance(v, dict) and all(ismod(x) for x in v.values()):  # (whatever the keys: names, ids)
                v.clear()
                found = True
            elif ismod(v):
                try:
                    setattr(obj, k, None)
                except Exception:  # noqa
                    pass
    return found


def in_child(fn, arg, timeout=60.0):
    """Run fn(arg) in a forked child; returns its (JSON-able) result.
    Raises ChildFailure on timeout / crash (a harness problem, never a verdict)."""
    r, w = os.pipe()
    pid = os.fork()
    if pid == 0:  # child
        try:
            os.close(r)
            faulthandler.enable()
            try:
                res = {"ok": True, "val": fn(arg)}
            except BaseException as e:  # noqa
                res = {"ok": False, "err": "".join(traceback.format_exception(type(e), e, e.__traceback__))[-4000:]}
            data = json.dumps(res).encode()
            with os.fdopen(w, "wb") as f:
                f.write(data)
        finally:
            os._exit(0)
    os.close(w)
    chunks = []
    deadline = time.monotonic() + timeout
    try:
        while True:
            left = deadline - time.monotonic()
            if left <= 0:
                os.kill(pid, signal.SIGKILL)
                raise ChildFailure(f"timeout after {timeout}s")
            ready, _, _ = select.select([r], [], [], min(left, 1.0))
            if ready:
                b = os.read(r, 1 << 16)
                if not b:
                    break
                chunks.append(b)
    finally:
        os.close(r)
        try:
            os.waitpid(pid, 0)
        except ChildProcessError:
            pass
    data = b"".join(chunks)
    if not data:
        raise ChildFailure("child died without a result")
    res = json.loads(data)
    if not res["ok"]:
        raise ChildFailure("exception in child:\n" + res["err"])
    return res["val"]


def _worker(job):
    fn, arg = job
    try:
        return fn(arg)
    except ChildFailure as e:
        return {"harness_error": str(e), "arg": repr(arg)[:200]}
    except Exception as e:  # noqa
        return {"harness_error": "".join(traceback.format_exception(type(e), e, e.__traceback__))[-4000:], "arg": repr(arg)[:200]}


def run_pool(fn, args, workers=16, chunk=8, on_result=None, wall_cap=None):
    """Map fn over args with a fork pool; results in submission order (deterministic
    aggregation).  Stops submitting once `wall_cap` seconds passed."""
    t0 = time.monotonic()
    ctx = multiprocessing.get_context("fork")
    results = []
    args = list(args)
    with ProcessPoolExecutor(max_workers=workers, mp_context=ctx) as ex:
        pos = 0
        window = workers * 6
        futs = []
        while pos < len(args) or futs:
            while pos < len(args) and len(futs) < window:
                if wall_cap is not None and time.monotonic() - t0 > wall_cap:
                    pos = len(args)
                    break
                futs.append(ex.submit(_worker, (fn, args[pos])))
                pos += 1
            if not futs:
                break
            f = futs.pop(0)
            res = f.result(timeout=600)
            results.append(res)
            if on_result is not None:
                if on_result(res) == "stop":
                    for g in futs:
                        g.cancel()
                    futs = []
                    pos = len(args)
    return results
