"""Model-guided generator of design programs (DESIGN §3.4).

Programs are extended one op at a time; the reference model's tables (`refmodel.Design`)
answer "which ports exist, what widths fit", so generated programs are valid by
construction and a planted fault is a deliberate single edit.

Soundness policy (DESIGN §4) - constructs whose meaning neither the property text nor the
readme fixes are *not generated*:
  * non-unit-step and negative-step slices (exporter refuses them; C03 territory)
  * no-connects on bundle-valued ports of instance arrays
  * port references to ports of arrays that are wired per element, and to pair ports
  * pairs of modules that have bundle-valued ports
  * the same object under two names
(Two earlier entries are now decided and planted as C02 fault classes instead: an anonymous
bundle with a member its port lacks - `extra_member`; a connected signal replaced under its own
name - `orphan_replaced`.)
"""
import random

from .choices import hash64
from . import refmodel
from .refmodel import DIFF

LEAF_NAMES = ["x", "y", "z", "u", "v"]
SUB_NAMES = ["sa", "sb"]
EXT_PORTS = ["a", "b", "c", "d"]
IDEAL = ["R", "C", "L", "V", "I", "Vcvs"]
PHYSICAL = ["Mos", "Diode", "Bipolar", "Res3"]
PRIM_PARAM = {"R": "r", "C": "c", "L": "l", "V": "dc", "I": "dc", "Vcvs": "gain"}


def draw_cfg(ch, base=None):
    """Per-run (swarm) configuration."""
    cfg = {
        "n_mods": ch.rint(1, 5, "n_mods"),
        "max_insts": ch.rint(1, 5, "max_insts"),
        "max_width": ch.rint(1, 5, "max_width"),
        "n_bundles": ch.rint(0, 3, "n_bundles"),
        "n_exts": ch.rint(1, 3, "n_exts"),
        "bundles": ch.chance(2, 3),
        "anon": ch.chance(1, 2),
        "portrefs": ch.chance(3, 4),
        "noconn": ch.chance(1, 2),
        "arrays": ch.chance(1, 2),
        "pairs": ch.chance(1, 3),
        "slices": ch.chance(3, 4),
        "concats": ch.chance(2, 3),
        "nested": ch.chance(1, 2),
        "styles": ch.pick([["proc"], ["proc", "class"], ["proc", "class", "gen"], ["class"], ["gen", "proc"]]),
        "physical": ch.chance(1, 4),
        "submods": ch.rint(1, 3, "submods"),  # weight of module targets
        "compat_bundles": ch.chance(1, 4),
        "pr_through_expr": True,  # port references to ports wired to slices / concats
        "fan": ch.weighted([(2, 0), (1, 1), (1, 2)], "fan"),  # several bundle ports of one type per module, re-used sources
        "adv_members": ch.chance(1, 6),  # bundle members named like a nested member's flattened path
        "ext_domains": ch.chance(1, 4),  # same-named external modules in two domains
        "ext_nodomain": ch.chance(1, 4),  # an external module without a domain of its own
    }
    if base:
        cfg.update(base)
    if not cfg["bundles"]:
        cfg["n_bundles"] = 0
    return cfg


class ModCtx:
    """Generation-time view of the module being built."""

    def __init__(self, g, mid):
        self.g = g
        self.mid = mid
        self.nsig = 0
        self.nbun = 0
        self.ninst = 0
        self.nmemo = 0
        self.implicit = set()  # ports left unconnected on purpose
        self.assigned = {}  # (iname, port) -> X   the *live* connections
        self.last_bundle = {}  # iname -> bundle instance most recently connected to it

    @property
    def m(self):
        return self.g.d.mods[self.mid]

    @property
    def noconned(self):
        """Ports whose live connection is a no-connect."""
        return {k for k, x in self.assigned.items() if x[0] == "nc"}

    @property
    def referenced(self):
        """Ports referenced by a live port reference (anywhere inside a live connection)."""
        out = set()

        def walk(x):
            if isinstance(x, list):
                if x and x[0] == "pr":
                    out.add((x[1], x[2]))
                for v in x:
                    walk(v)
            elif isinstance(x, dict):
                for v in x.values():
                    walk(v)

        for x in self.assigned.values():
            walk(x)
        return out


class Gen:
    def __init__(self, ch, cfg):
        self.ch = ch
        self.cfg = cfg
        self.ops = []
        self.d = refmodel.Design()
        self.param_counter = 0

    def emit(self, op):
        self.ops.append(op)
        self.d.apply(op)

    # ------------------------------------------------------------------ library
    def gen_bundles(self):
        ch, cfg = self.ch, self.cfg
        self.bids = []
        for k in range(cfg["n_bundles"]):
            nsig = ch.rint(1, 3, "nsig")
            names = LEAF_NAMES[:]
            sigs = []
            for j in range(nsig):
                nm = names[j]
                kind = ch.pick(["s", "s", "i", "o", "io", "p"], "leafkind")
                sigs.append([nm, ch.rint(1, min(3, cfg["max_width"]), "leafw"), kind])
            subs = []
            if self.bids and ch.chance(1, 2):
                for j in range(ch.rint(1, 2, "nsub")):
                    sub = ch.pick(self.bids, "sub")
                    if self._depth(sub) < 2:
                        subs.append([SUB_NAMES[j], sub, ch.chance(1, 3)])
            if subs and cfg.get("adv_members"):
                # a scalar member named like the underscore-joined path of a nested member:
                # both flatten to the same `inst_sub_member` name (C05)
                sname, sub, _f = ch.pick(subs, "advsub")
                leaf = ch.pick(list(self.d.bundles[sub]["sigs"]), "advleaf")
                nm = f"{sname}_{leaf}"
                if nm not in [s_[0] for s_ in sigs]:
                    sigs.append([nm, ch.rint(1, min(3, cfg["max_width"]), "advw"), "s"])
            self.emit(["bundle", k, f"B{k}", sigs, subs])
            self.bids.append(k)
        self.ib_bids = []
        if cfg.get("adv_members") and cfg["pairs"]:
            k = len(self.bids)
            self.emit(["bundle", k, f"B{k}", [["p", 1, "s"], ["p_", 1, "s"]], []])
            self.bids.append(k)
            self.ib_bids.append(k)
        if cfg["compat_bundles"] and self.bids:
            # a structurally identical twin of one bundle (different type, same members)
            src = ch.pick(self.bids, "twin")
            b = self.d.bundles[src]
            k = len(self.bids)
            sigs = [[n, w, "s"] for n, w in b["sigs"].items()]
            subs = [[n, s, False] for n, (s, _f) in b["subs"].items()]
            self.emit(["bundle", k, f"B{k}", sigs, subs])
            self.bids.append(k)

    def _depth(self, bid):
        b = self.d.bundles[bid]
        return 1 + max([self._depth(s) for s, _ in b["subs"].values()] or [0])

    def gen_exts(self):
        ch, cfg = self.ch, self.cfg
        for k in range(cfg["n_exts"]):
            nports = ch.rint(1, 4, "xports")
            ports = [[EXT_PORTS[j], ch.rint(1, cfg["max_width"], "xw"), ch.pick(["n", "i", "o", "io"])] for j in range(nports)]
            if k == 1 and cfg.get("ext_domains"):
                # the name of external module 0, in another domain
                self.emit(["ext", k, "X0", ports, "verifb"])
            elif k == 0 and cfg.get("ext_nodomain"):
                self.emit(["ext", k, f"X{k}", ports, ""])
            else:
                self.emit(["ext", k, f"X{k}", ports])

    # ------------------------------------------------------------------ modules
    def gen_module(self, mid, name=None):
        ch, cfg = self.ch, self.cfg
        style = ch.pick(cfg["styles"], "style")
        self.emit(["module", mid, name or f"M{mid}", style])
        mc = ModCtx(self, mid)
        # up-front declarations
        for _ in range(ch.rint(1, 3, "nports")):
            self.new_sig(mc, ch.rint(1, cfg["max_width"], "pw"), port=True)
        for _ in range(ch.rint(0, 2, "nsigs")):
            self.new_sig(mc, ch.rint(1, cfg["max_width"], "sw"), port=False)
        if self.bids and cfg["fan"]:
            fb = ch.pick(self.bids, "fanbid")
            for _ in range(ch.rint(2, 3, "nfan")):
                self.new_bun(mc, fb, port=True)
        elif self.bids and ch.chance(1, 2):
            self.new_bun(mc, ch.pick(self.bids, "pbid"), port=True)
        if self.bids and ch.chance(1, 2):
            self.new_bun(mc, ch.pick(self.bids, "ibid"), port=False)
        # instances
        n_insts = ch.rint(1, cfg["max_insts"], "ninsts")
        insts = []
        for _ in range(n_insts):
            insts.append(self.new_instance(mc))
        # connections
        todo = []
        for iname in insts:
            info = mc.m.insts[iname]
            for port, shape in self.d.target_ports(info["target"]).items():
                todo.append((iname, port, shape))
        todo = ch.shuffle(todo, "connorder")
        if cfg.get("history"):
            self.connect_with_history(mc, todo)
        else:
            for iname, port, shape in todo:
                if (iname, port) in mc.implicit:
                    continue
                self.connect_port(mc, iname, port, shape, todo)
        # implicit ports must have ended up referenced
        for key in sorted(mc.implicit):
            if key not in mc.referenced:
                shape = self.d.target_ports(mc.m.insts[key[0]]["target"])[key[1]]
                mc.implicit.discard(key)
                self.connect_port(mc, key[0], key[1], shape, [], allow_pr=False)
        self.emit(["end", mid])
        return mc

    def new_sig(self, mc, width, port=None):
        ch = self.ch
        if port is None:
            port = ch.chance(1, 3)
        mc.nsig += 1
        name = (f"p{mc.nsig}" if port else f"s{mc.nsig}")
        d = ch.pick(["n", "i", "o", "io"], "dir") if port else "n"
        self.emit(["sig", mc.mid, name, width, "p" if port else "i", d])
        return name

    def new_bun(self, mc, bid, port=None):
        ch = self.ch
        if port is None:
            port = ch.chance(1, 3)
        mc.nbun += 1
        name = f"b{mc.nbun}"
        self.emit(["bun", mc.mid, name, bid, bool(port), ch.chance(1, 4), ch.weighted([(3, "ctor"), (1, "mul"), (1, "flip")], "bunhow")])
        return name

    def pick_target(self, mc, for_pair=False, for_array=False):
        ch, cfg = self.ch, self.cfg
        opts = []
        mods = [m for m in range(mc.mid) if self.d.mods[m].ended and self._mod_ok(m, for_pair)]
        if mods:
            opts.append((cfg["submods"] * 2, "mod"))
        opts.append((2, "prim"))
        opts.append((3, "ext"))
        k = ch.weighted(opts, "tkind")
        self.param_counter += 1
        if k == "mod":
            return ["mod", ch.pick(mods, "tmod")]
        if k == "prim":
            pool = IDEAL + (PHYSICAL if cfg["physical"] else [])
            p = ch.pick(pool, "prim")
            if p in PRIM_PARAM:
                return ["prim", p, {PRIM_PARAM[p]: self.param_counter}]
            return ["prim", p, {}]
        # (zero is a parameter value like any other: it must reach the package)
        return ["ext", ch.rint(0, cfg["n_exts"] - 1, "xid"), {"a": 0 if ch.chance(1, 6) else self.param_counter}]

    def _mod_ok(self, m, for_pair):
        if not for_pair:
            return True
        return all(isinstance(s, int) for s in self.d.target_ports(["mod", m]).values())

    def new_instance(self, mc):
        ch, cfg = self.ch, self.cfg
        kinds = [(8, "inst")]
        if cfg["arrays"]:
            kinds.append((2, "arr"))
        if cfg["pairs"]:
            kinds.append((1, "pair"))
        kind = ch.weighted(kinds, "ikind")
        mc.ninst += 1
        if kind == "inst":
            iname = f"i{mc.ninst}"
            self.emit(["inst", mc.mid, iname, self.pick_target(mc), ch.pick(["setattr", "add"], "how"), {}])
        elif kind == "arr":
            iname = f"a{mc.ninst}"
            self.emit(["arr", mc.mid, iname, self.pick_target(mc, for_array=True), ch.rint(1, 3, "n"), ch.pick(["ctor", "mul"]), {}])
        else:
            iname = f"q{mc.ninst}"
            if self.ib_bids and ch.chance(1, 2):
                self.emit(["pair", mc.mid, iname, self.pick_target(mc, for_pair=True), {}, ch.pick(self.ib_bids, "ibbid")])
            else:
                self.emit(["pair", mc.mid, iname, self.pick_target(mc, for_pair=True), {}])
        return iname

    # ------------------------------------------------------------------ connections
    def connect_port(self, mc, iname, port, shape, todo, allow_pr=True, how=None):
        ch = self.ch
        info = mc.m.insts[iname]
        kind, n = info["kind"], info["n"]
        x = None
        if isinstance(shape, int):
            w = shape
            if kind == "arr" and n > 1 and ch.chance(1, 2):
                w = shape * n  # per-element wiring
            if kind == "pair" and shape == 1 and ch.chance(1, 2):
                if self.cfg["anon"] and ch.chance(1, 2):
                    # member-wise wiring through an anonymous bundle / dict, members in any order
                    members = ch.shuffle(list(self.d.bundles[info.get("bid", DIFF)]["sigs"]), "pairmembers")
                    body = {mem: self.gen_scalar(mc, 1, 1, (iname, port), allow_pr=False, allow_nc=False) for mem in members}
                    if ch.chance(1, 2):
                        mc.nmemo += 1
                        x = ["an", mc.nmemo, body]
                    else:
                        x = ["d", body]
                else:
                    x = self.gen_diff(mc, info.get("bid", DIFF))
            else:
                x = self.gen_scalar(mc, w, 0, (iname, port), allow_pr=allow_pr and w == shape, allow_nc=(kind in ("inst", "pair") or (kind == "arr" and w == shape)), todo=todo)
        elif kind == "inst" and self.cfg["noconn"] and (iname, port) not in mc.referenced and ch.chance(1, 8):
            # a no-connect on a bundle-valued port: the implicit bundle instance behind it is private
            mc.nmemo += 1
            x = ["nc", mc.nmemo, None]
        else:
            x = self.gen_bundle_val(mc, shape, 0, (iname, port), allow_pr=allow_pr, for_array=(kind != "inst"), todo=todo)
        how = how or ch.pick(["call", "setattr", "connect"], "connhow")
        mc.assigned[(iname, port)] = x
        if how == "repl":
            self.emit(["repl", mc.mid, iname, port, x])
        else:
            self.emit(["conn", mc.mid, iname, port, x, how])
        return x

    def connect_with_history(self, mc, todo):
        """C04: per port 0-3 temporary connections of any kind, then the final one; the
        per-port sequences are interleaved at random.  Later connections go through
        connect (which replaces), replace(), or disconnect() + connect."""
        ch = self.ch
        seqs = []
        for iname, port, shape in todo:
            k = ch.weighted([(3, 0), (3, 1), (2, 2), (1, 3)], "ntmp")
            seqs.append([(iname, port, shape, False)] * k + [(iname, port, shape, True)])
        events = []
        live = [s for s in seqs if s]
        while live:
            s_ = ch.pick(live, "interleave")
            events.append(s_.pop(0))
            live = [s for s in live if s]
        for iname, port, shape, final in events:
            key = (iname, port)
            if key in mc.implicit:
                continue
            if not final and isinstance(shape, int) and mc.m.insts[iname]["kind"] == "inst" and ch.chance(1, 12):
                # a mistyped port name: connected, noticed, disconnected again
                names = self._scalar_sources(mc, shape, True)
                if names:
                    typo = port + "x"
                    if typo not in self.d.target_ports(mc.m.insts[iname]["target"]):
                        self.emit(["conn", mc.mid, iname, typo, ["s", ch.pick(names, "typosig")], "connect"])
                        self.emit(["disc", mc.mid, iname, typo])
            if final and key in mc.assigned and mc.m.insts[iname]["kind"] == "inst" and mc.assigned[key][0] != "nc" and ch.chance(1, 8):
                # release: the port is disconnected for good and stays implicit, referenced by others -
                # by references taken before the disconnect and by one taken right after it
                others = [(i2, p2, s2) for i2, p2, s2 in todo if (i2, p2) != key and (i2, p2) not in mc.implicit and mc.m.insts[i2]["kind"] == "inst" and self.d.compatible(s2, shape) and isinstance(s2, int) == isinstance(shape, int) and not self._reaches(mc, key, (i2, p2))]
                if others:
                    self.emit(["disc", mc.mid, iname, port])
                    del mc.assigned[key]
                    mc.implicit.add(key)
                    i2, p2, _s2 = ch.pick(others, "rereference")
                    x = ["pr", iname, port]
                    if (i2, p2) in mc.assigned:
                        self.emit(["repl", mc.mid, i2, p2, x]) if ch.chance(1, 2) else self.emit(["conn", mc.mid, i2, p2, x, "setattr"])
                    else:
                        self.emit(["conn", mc.mid, i2, p2, x, "connect"])
                    mc.assigned[(i2, p2)] = x
                    continue
            if final and key in mc.assigned and isinstance(shape, int) and mc.m.insts[iname]["kind"] == "inst" and self.cfg["portrefs"] and ch.chance(1, 12):
                # the port is assigned its own reference (`i.p = i.p`): a re-connection like any other -
                # what it was connected to is replaced, the port ends on a net of its own
                x = ["pr", iname, port]
                self.emit(["conn", mc.mid, iname, port, x, "setattr"])
                mc.assigned[key] = x
                continue
            if key in mc.assigned:
                way = ch.weighted([(3, "conn"), (3, "repl"), (2, "disc")], "rehow")
                if way == "disc":
                    self.emit(["disc", mc.mid, iname, port])
                    del mc.assigned[key]
                    self.connect_port(mc, iname, port, shape, todo if final else [])
                elif way == "repl":
                    self.connect_port(mc, iname, port, shape, todo if final else [], how="repl")
                else:
                    self.connect_port(mc, iname, port, shape, todo if final else [])
            else:
                self.connect_port(mc, iname, port, shape, todo if final else [])

    def gen_diff(self, mc, want=DIFF):
        """A bundle instance of the instance bundle's own bundle type (for pairs)."""
        for bname, (bid, _p, _f) in mc.m.buns.items():
            if bid == want and self.ch.chance(1, 2):
                return ["b", bname]
        name = self.new_bun(mc, want)
        return ["b", name]

    def _scalar_sources(self, mc, w, exact):
        """Existing designer signals usable as a width-w source (exact) or wider (for slicing)."""
        out = []
        for name, (sw, _v, _d) in mc.m.sigs.items():
            if (exact and sw == w) or (not exact and sw > w):
                out.append(name)
        return out

    def gen_scalar(self, mc, w, depth, me, allow_pr=True, allow_nc=False, todo=()):
        ch, cfg = self.ch, self.cfg
        opts = [(6, "sig")]
        if cfg["slices"]:
            opts.append((3, "slice"))
        if cfg["concats"] and w >= 2:
            opts.append((3, "cat"))
        if cfg["portrefs"] and allow_pr:
            opts.append((4, "pr"))
        if cfg["noconn"] and allow_nc and depth == 0 and me not in mc.referenced:
            opts.append((1, "nc"))
        if cfg["bundles"] and mc.m.buns:
            opts.append((2, "bref"))
        if cfg["nested"] and depth < 2 and cfg["slices"]:
            opts.append((2, "nest"))
        k = ch.weighted(opts, "skind")
        if k == "sig":
            names = self._scalar_sources(mc, w, True)
            if names and ch.chance(3, 4):
                return ["s", ch.pick(names, "sname")]
            return ["s", self.new_sig(mc, w)]
        if k == "slice":
            return self.gen_slice_of(mc, self._wide_base(mc, w, depth, me), w)
        if k == "cat":
            nparts = ch.rint(2, min(3, w), "nparts")
            cuts = sorted(ch.shuffle(list(range(1, w)), "cuts")[: nparts - 1])
            widths = [b - a for a, b in zip([0] + cuts, cuts + [w])]
            parts = [self.gen_scalar(mc, pw, depth + 1, me, allow_pr=allow_pr, allow_nc=False, todo=todo) for pw in widths]
            return ["cat"] + parts
        if k == "pr":
            x = self.gen_portref(mc, w, me, todo)
            if x is not None:
                return x
            return ["s", self.new_sig(mc, w)]
        if k == "nc":
            mc.nmemo += 1
            return ["nc", mc.nmemo, (f"nc{mc.nmemo}" if ch.chance(1, 3) else None)]
        if k == "bref":
            cands = []
            for bname, (bid, _p, _f) in mc.m.buns.items():
                for path, lw in self.d.bundle_leaves(bid):
                    if lw == w:
                        cands.append(["br", bname] + list(path))
            if cands:
                return ch.pick(cands, "bref")
            return ["s", self.new_sig(mc, w)]
        # nest: slice of (concat | slice)
        wide = w + ch.rint(0, 2, "nestextra")
        if wide >= 2 and cfg["concats"] and ch.chance(1, 2):
            base = self._force_cat(mc, wide, depth, me)
        else:
            base = self.gen_slice_of(mc, self._wide_base(mc, wide, depth + 1, me), wide)
        return self.gen_slice_of(mc, base, w, base_width=wide)

    def _force_cat(self, mc, w, depth, me):
        a = self.ch.rint(1, w - 1, "fc")
        return ["cat", self.gen_scalar(mc, a, depth + 2, me, allow_pr=False), self.gen_scalar(mc, w - a, depth + 2, me, allow_pr=False)]

    def _wide_base(self, mc, w, depth, me):
        """A named base at least as wide as w (signal, or bundle leaf), with its width."""
        ch = self.ch
        if self.cfg["bundles"] and mc.m.buns and ch.chance(1, 4):
            # a member of a bundle instance, reached through a bundle reference and then sliced
            leaves = [(["br", bname] + list(path), lw) for bname, (bid, _p, _f) in mc.m.buns.items() for path, lw in self.d.bundle_leaves(bid) if lw >= w and lw >= 2]
            if leaves:
                return ch.pick(leaves, "wbref")
        names = self._scalar_sources(mc, w, False) + self._scalar_sources(mc, w, True)
        if names and ch.chance(3, 4):
            nm = ch.pick(names, "wbase")
            return (["s", nm], mc.m.sigs[nm][0])
        bw = w + ch.rint(0, 3, "wextra")
        return (["s", self.new_sig(mc, bw)], bw)

    def gen_slice_of(self, mc, base, w, base_width=None):
        """A width-w unit-step slice of `base`; base is (X, width) or X with base_width."""
        ch = self.ch
        if base_width is None:
            bx, bw = base
        else:
            bx, bw = base, base_width
        lo = ch.rint(0, bw - w, "lo")
        hi = lo + w
        if w == 1 and ch.chance(1, 2):
            idx = lo if ch.chance(2, 3) else lo - bw  # negative index form
            return ["sl", bx, idx]
        form = ch.draw(4, "sform")
        start, stop = lo, hi
        if form == 1 and lo == 0:
            start = None
        if form == 2 and hi == bw:
            stop = None
        if form == 3:
            start = lo - bw
            stop = hi - bw if hi != bw else None
        return ["sr", bx, start, stop, (1 if ch.chance(1, 5) else None)]

    def gen_portref(self, mc, shape, me, todo):
        """A reference to another instance's port of the same shape, or None."""
        ch = self.ch
        cands = []
        for iname, info in mc.m.insts.items():
            if info["kind"] != "inst":
                continue
            for port, sh in self.d.target_ports(info["target"]).items():
                if (iname, port) == me or (iname, port) in mc.noconned:
                    continue
                if not self.d.compatible(sh, shape) or isinstance(sh, int) != isinstance(shape, int):
                    continue
                if not self.cfg["pr_through_expr"]:
                    x = mc.assigned.get((iname, port))
                    if x is not None and x[0] not in ("s", "b", "pr"):
                        continue
                cands.append((iname, port))
        if not cands:
            return None
        q = ch.pick(cands, "prq")
        # would referencing q close a reference loop back to `me`?  Loops are legal; keep rare.
        if self._reaches(mc, q, me) and not ch.chance(1, 4):
            return None
        if q not in mc.assigned and q in {(i, p) for i, p, _s in todo} and ch.chance(1, 2):
            mc.implicit.add(q)
        return ["pr", q[0], q[1]]

    def _reaches(self, mc, q, me, seen=None):
        seen = seen or set()
        if q == me:
            return True
        if q in seen:
            return False
        seen.add(q)
        x = mc.assigned.get(q)
        if x is not None and x[0] == "pr":
            return self._reaches(mc, (x[1], x[2]), me, seen)
        return False

    def gen_bundle_val(self, mc, shape, depth, me, allow_pr=True, for_array=False, todo=()):
        ch, cfg = self.ch, self.cfg
        bid = shape[1]
        opts = [(5, "b")]
        if cfg["anon"] and not for_array and depth < 2:
            opts.append((3, "an"))
        if cfg["portrefs"] and allow_pr and not for_array:
            opts.append((2, "pr"))
        opts.append((2, "br"))
        k = ch.weighted(opts, "bkind")
        if k == "pr":
            x = self.gen_portref(mc, shape, me, todo)
            if x is not None:
                return x
            k = "b"
        if k == "br":
            cands = []
            for bname, (b2, _p, _f) in mc.m.buns.items():
                for sname, (sub, _fl) in self.d.bundles[b2]["subs"].items():
                    if self._bundle_ok(sub, bid):
                        cands.append(["br", bname, sname])
            if cands:
                return ch.pick(cands, "brsub")
            k = "b"
        if k == "an":
            members = {}
            b = self.d.bundles[bid]
            for sname, w in b["sigs"].items():
                members[sname] = self.gen_scalar(mc, w, depth + 1, me, allow_pr=cfg["portrefs"] and allow_pr, allow_nc=False)
            for sname, (sub, _f) in b["subs"].items():
                members[sname] = self.gen_bundle_val(mc, ("B", sub), depth + 1, me, allow_pr=False)
            # the members are written in any order, not the declaration's (the order is drawn off the
            # tape, so that programs generated before this was added stay as they were otherwise)
            oseed = hash64(ch.seed, "anorder", mc.mid, str(me), depth)
            if oseed % 2 and len(members) > 1:
                keys = list(members)
                random.Random(oseed).shuffle(keys)
                members = {k_: members[k_] for k_ in keys}
            if ch.chance(1, 2):
                mc.nmemo += 1
                return ["an", mc.nmemo, members]
            return ["d", members]
        # a bundle instance of this module
        cands = [bname for bname, (b2, _p, _f) in mc.m.buns.items() if self._bundle_ok(b2, bid)]
        if cands and cfg["fan"] and ch.chance(cfg["fan"], 3):
            # fan: the bundle most recently used on this very instance, again
            last = mc.last_bundle.get(me[0])
            if last in cands:
                return ["b", last]
        if cands and ch.chance(3, 4):
            nm = ch.pick(cands, "bname")
            mc.last_bundle[me[0]] = nm
            return ["b", nm]
        nm = self.new_bun(mc, bid)
        mc.last_bundle[me[0]] = nm
        return ["b", nm]

    def _bundle_ok(self, have, want):
        if have == want:
            return True
        return self.cfg["compat_bundles"] and self.d.compatible(("B", have), ("B", want))


def gen_design(ch, cfg):
    """Returns (ops, tops) - a valid design program and the ids of its modules."""
    g = Gen(ch, cfg)
    g.gen_bundles()
    g.gen_exts()
    for mid in range(cfg["n_mods"]):
        g.gen_module(mid)
    return g.ops, list(range(cfg["n_mods"])), g
