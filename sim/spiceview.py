"""Second, independent reading of an exported design: the SPICE text written by
`h.netlist(fmt="spice")` (DESIGN §3.5-2).

Hierarchy (which instance is of which module) is taken from the package; *connectivity* -
which scalar net sits at which position of every instance line and every sub-circuit
header - is taken from the text.  Positional ports are bound MSB first, as SPICE does.
The result has the same form as `netview.flatten_pkg`.
"""
import re


class SpiceError(Exception):
    pass


def sanitize(name):
    name = name.split(".")[-1]
    for ch in name:
        if not (ch.isalpha() or ch.isdigit() or ch == "_"):
            name = name.replace(ch, "_")
    return name


def parse(text):
    """{subckt name: {"ports": [tokens], "insts": [{"name": str, "conns": [tokens], "third": str}]}}"""
    subckts = {}
    cur = None
    lines = text.split("\n")
    i = 0
    while i < len(lines):
        ln = lines[i].rstrip()
        if ln.startswith(".SUBCKT"):
            name = ln.split()[1]
            cur = {"ports": [], "insts": []}
            subckts[name] = cur
            nxt = lines[i + 1].strip() if i + 1 < len(lines) else ""
            if nxt.startswith("+"):
                cur["ports"] = nxt[1:].split()
                i += 1
        elif ln.startswith(".ENDS"):
            cur = None
        elif cur is not None and ln and not ln.startswith(("+", "*")):
            inst = {"name": ln.strip(), "conns": [], "third": None}
            if i + 1 < len(lines) and lines[i + 1].startswith("+"):
                body = lines[i + 1][1:].strip()
                inst["conns"] = [] if body.startswith("*") else body.split()
            if i + 2 < len(lines) and lines[i + 2].startswith("+"):
                inst["third"] = lines[i + 2][1:].strip()
            cur["insts"].append(inst)
        i += 1
    return subckts


def flatten_spice(text, pkg, top_name, prim_ports):
    subckts = parse(text)
    mods = {m.name: m for m in pkg.modules}
    exts = {(e.name.domain, e.name.name): e for e in pkg.ext_modules}
    parent = {}

    def find(x):
        if x not in parent:
            parent[x] = x
            return x
        r = x
        while parent[r] != r:
            r = parent[r]
        while parent[x] != r:
            parent[x], x = r, parent[x]
        return r

    def union(a, b):
        ra, rb = find(a), find(b)
        if ra != rb:
            parent[ra] = rb

    leaves, sigs, insts = [], {}, {}

    def tokens_of(m):
        """{(signal, bit): token} for a package module; raises on token collisions."""
        out, seen = {}, {}
        for s in m.signals:
            for i in range(s.width):
                tok = s.name if s.width == 1 else f"{s.name}_{i}"
                if tok in seen:
                    raise SpiceError(f"ambiguous net token {tok!r} in {m.name}")
                seen[tok] = (s.name, i)
                out[(s.name, i)] = tok
        return out

    def inst(mname, path, ext_nets):
        m = mods[mname]
        sc = subckts.get(sanitize(mname))
        if sc is None:
            raise SpiceError(f"no .SUBCKT for {mname}")
        toks = tokens_of(m)
        for (sname, i), tok in toks.items():
            sigs[(path, sname, i)] = ("n", path, tok)
        if ext_nets is not None:
            if len(ext_nets) != len(sc["ports"]):
                raise SpiceError(f"{mname} at {path}: {len(ext_nets)} nets for {len(sc['ports'])} header ports")
            for tok, n in zip(sc["ports"], ext_nets):
                union(("n", path, tok), n)
        if len(sc["insts"]) != len(m.instances):
            raise SpiceError(f"{mname}: {len(sc['insts'])} instance blocks for {len(m.instances)} instances")
        for pi, si in zip(m.instances, sc["insts"]):
            if si["name"][1:] != pi.name:
                raise SpiceError(f"{mname}: instance block {si['name']!r} vs {pi.name!r}")
            cpath = path + (pi.name,)
            nets = [("n", path, t) for t in si["conns"]]
            which = pi.module.WhichOneof("to")
            if which == "local":
                insts[cpath] = pi.module.local
                if si["third"] != sanitize(pi.module.local):
                    raise SpiceError(f"{cpath}: target {si['third']!r} vs {pi.module.local!r}")
                inst(pi.module.local, cpath, nets)
                continue
            dom, name = pi.module.external.domain, pi.module.external.name
            insts[cpath] = f"{dom}/{name}"
            if (dom, name) in prim_ports:
                ports = [(p, 1) for p in prim_ports[(dom, name)]]
            else:
                e = exts[(dom, name)]
                ws = {s.name: s.width for s in e.signals}
                ports = [(p.signal, ws[p.signal]) for p in e.ports]
            flat = [(p, i) for p, w in ports for i in reversed(range(w))]
            if len(flat) != len(nets):
                raise SpiceError(f"{cpath}: {len(nets)} nets for {len(flat)} port bits")
            terms = {pb: n for pb, n in zip(flat, nets)}
            from .netview import param_str

            params = {p.name: param_str(p.value) for p in pi.parameters}
            leaves.append({"path": cpath, "kind": f"{dom}/{name}", "params": params, "terms": terms})

    inst(top_name, (), None)
    for leaf in leaves:
        leaf["terms"] = {k: find(n) for k, n in leaf["terms"].items()}
    sigs = {k: find(n) for k, n in sigs.items()}
    return {"leaves": leaves, "sigs": sigs, "insts": insts}
