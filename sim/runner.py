"""Shared run machinery: scenario execution in pristine children, batches, minimisation,
replay files and evidence.  Profiles plug in `generate(seed, tier)` and `execute(scn)`.

A run result is a dict:
  findings : [{"prop": id, "clause": str, "detail": [...]}]   violations by property
  probes   : {name: count}      rare-condition counters
  sched    : scheduler statistics (choice points)
  sig      : a hashable signature of (program shape, session, schedule trace) for the
             distinct-nontrivial count
  nontrivial : bool
"""
import json
import os
import time

from . import procs
from .choices import hash64

ROOT = os.path.dirname(os.path.dirname(os.path.abspath(__file__)))  # /verif, or a snapshot of it
REPLAY_DIR = os.path.join(ROOT, "replays")
EVIDENCE_DIR = os.path.join(ROOT, "evidence")


def run_seed(seed, profile, tier):
    return hash64(seed, profile, tier)


class Batch:
    """Aggregates the results of one check run."""

    def __init__(self, prop, profile, tier, seed):
        self.prop = prop
        self.profile = profile
        self.tier = tier
        self.seed = seed
        self.t0 = time.monotonic()
        self.runs = 0
        self.discards = 0
        self.harness_errors = []
        self.violations = []  # (run index, scenario seed, finding)
        self.probes = {}
        self.sched = {"choice_points": 0, "nonidentity": 0, "by_site": {}, "by_size": {}, "policies": {}}
        self.sigs = set()
        self.nontrivial = 0
        self.ops_total = 0
        self.ops_hist = {}
        self.samples = []
        self.faults = {}
        self.extra = {}
        self.accept = set()  # findings of these properties also count as violations of self.prop

    def add(self, idx, res):
        if "harness_error" in res:
            self.harness_errors.append(res["harness_error"])
            return
        self.runs += 1
        if res.get("discard"):
            self.discards += 1
        for k, v in res.get("probes", {}).items():
            self.probes[k] = self.probes.get(k, 0) + v
        for k, v in res.get("faults", {}).items():
            self.faults[k] = self.faults.get(k, 0) + v
        s = res.get("sched")
        if s:
            self.sched["choice_points"] += s["choice_points"]
            self.sched["nonidentity"] += s["nonidentity"]
            for site, n in s["by_site"].items():
                self.sched["by_site"][site] = self.sched["by_site"].get(site, 0) + n
            for size, n in s["by_size"].items():
                self.sched["by_size"][size] = self.sched["by_size"].get(size, 0) + n
            self.sched["policies"][s["policy"]] = self.sched["policies"].get(s["policy"], 0) + 1
        n_ops = res.get("n_ops", 0)
        self.ops_total += n_ops
        b = str(min(n_ops // 10 * 10, 200))
        self.ops_hist[b] = self.ops_hist.get(b, 0) + 1
        if res.get("nontrivial") and not res.get("discard"):
            sig = res.get("sig")
            if sig not in self.sigs:
                self.sigs.add(sig)
        if len(self.samples) < 3 and res.get("sample") is not None and res.get("nontrivial"):
            self.samples.append(res["sample"])
        for f in res.get("findings", []):
            if f["prop"] == self.prop or f["prop"] in self.accept:
                self.violations.append((idx, res.get("seed"), f))

    def wall(self):
        return time.monotonic() - self.t0


def write_evidence(batch, rule, assumptions, extra_cov=None, known=None):
    os.makedirs(EVIDENCE_DIR, exist_ok=True)
    wall = batch.wall()
    cov = {
        "evaluations": batch.runs,
        "distinct_nontrivial": len(batch.sigs),
        "rule": rule,
        "samples": batch.samples or ["(no non-trivial sample recorded)"],
        "runs_per_hour": int(batch.runs / wall * 3600) if wall > 0 else 0,
        "discarded_runs": batch.discards,
        "harness_errors": len(batch.harness_errors),
        "simulated_time": {
            "note": "no clock in the system; logical time = API operations (design + session ops executed)",
            "total_ops": batch.ops_total,
            "ops_per_run_histogram": dict(sorted(batch.ops_hist.items(), key=lambda kv: int(kv[0]))),
        },
        "schedule": batch.sched,
        "faults_injected": batch.faults,
        "probes": dict(sorted(batch.probes.items())),
        "unreached_probes": sorted(k for k, v in batch.probes.items() if v == 0),
        "components": {
            "real": ["hdl21 (/repo working tree)", "vlsir", "vlsirtools netlisters", "protobuf", "pydantic", "CPython 3.12"],
            "substituted": ["builtin set on connectable back-reference attributes -> SimSet (scheduler-ordered iteration)"],
            "not_run": ["SPICE simulators / Sim.run"],
        },
        "known_findings_reported": known or [],
    }
    if extra_cov:
        cov.update(extra_cov)
    ev = {
        "property_id": batch.prop,
        "tier": batch.tier,
        "seed": batch.seed,
        "level": "exploration",
        "coverage": cov,
        "assumptions": assumptions,
        "wall_s": round(wall, 2),
        "violations": len(batch.violations),
    }
    path = os.path.join(EVIDENCE_DIR, f"{batch.prop}.json")
    with open(path, "w") as f:
        json.dump(ev, f, indent=1, sort_keys=True, default=str)
    return path


def write_replay(prop, seed, payload):
    os.makedirs(REPLAY_DIR, exist_ok=True)
    path = os.path.join(REPLAY_DIR, f"{prop}-{seed}.json")
    with open(path, "w") as f:
        json.dump(payload, f, indent=1, default=str)
    return path
