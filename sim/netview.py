"""Independent reading of a `vlsir.circuit.Package` (DESIGN §3.5-2) and the C06 monitor.

`PkgView` indexes a package; `closed_violations` is the closedness monitor of property
C06; `flatten_pkg` reduces the hierarchy under one module to leaf devices plus the net of
every signal bit at every level.

Bit significance is the one every vlsirtools netlister applies (read in
vlsirtools/netlist/spice.py, spectre.py, verilog.py): a signal or slice is written MSB
first, concatenation parts are written in listed order, so `parts[0]` is the *most*
significant part.  Index 0 is the least significant bit.
"""

PRIM_DOMAINS = ("hdl21.primitives", "vlsir.primitives")


class PkgError(Exception):
    pass


def prim_ports_table():
    """{(domain, name): [port names]} for the two built-in primitive domains."""
    import vlsirtools.primitives as vp
    import hdl21.primitives as hp

    t = {}
    for name, em in vp.dct.items():
        t[("vlsir.primitives", name)] = [p.signal for p in em.ports]
    for name, entry in hp._primitives.items():
        t[("hdl21.primitives", name)] = [p.name for p in entry.prim.port_list]
    return t


class PkgView:
    def __init__(self, pkg, prim_ports):
        self.pkg = pkg
        self.prim_ports = prim_ports
        self.modules = {}
        self.order = []
        for m in pkg.modules:
            self.order.append(m.name)
            self.modules.setdefault(m.name, m)
        self.exts = {}
        for e in pkg.ext_modules:
            self.exts.setdefault((e.name.domain, e.name.name), e)

    def target_ports(self, ref):
        """Ordered [(port name, width)] of an instance's target, or None if unresolved."""
        which = ref.WhichOneof("to")
        if which == "local":
            m = self.modules.get(ref.local)
            if m is None:
                return None
            widths = {s.name: s.width for s in m.signals}
            return [(p.signal, widths.get(p.signal)) for p in m.ports]
        if which == "external":
            key = (ref.external.domain, ref.external.name)
            if key[0] in PRIM_DOMAINS:
                ports = self.prim_ports.get(key)
                if ports is None:
                    return None
                return [(p, 1) for p in ports]
            e = self.exts.get(key)
            if e is None:
                return None
            widths = {s.name: s.width for s in e.signals}
            return [(p.signal, widths.get(p.signal)) for p in e.ports]
        return None


def target_bits(t, widths, errs, where):
    """Bits (LSB first) named by a ConnectionTarget, as [(signal, index)]."""
    which = t.WhichOneof("stype")
    if which == "sig":
        w = widths.get(t.sig)
        if w is None:
            errs.append(f"{where}: undeclared signal {t.sig!r}")
            return []
        return [(t.sig, i) for i in range(w)]
    if which == "slice":
        s = t.slice
        w = widths.get(s.signal)
        if w is None:
            errs.append(f"{where}: slice of undeclared signal {s.signal!r}")
            return []
        if not (0 <= s.bot <= s.top < w):
            errs.append(f"{where}: slice {s.signal}[{s.top}:{s.bot}] outside width {w}")
            return []
        return [(s.signal, i) for i in range(s.bot, s.top + 1)]
    if which == "concat":
        out = []
        for part in reversed(t.concat.parts):  # parts[0] is the MSB part
            out += target_bits(part, widths, errs, where)
        if not t.concat.parts:
            errs.append(f"{where}: empty concatenation")
        return out
    errs.append(f"{where}: empty connection target")
    return []


def closed_violations(pkg, prim_ports, check_tools=True):
    """The C06 monitor: list of human-readable closure violations of `pkg` (empty = closed)."""
    errs = []
    v = PkgView(pkg, prim_ports)
    seen = set()
    for m in pkg.modules:
        if m.name in seen:
            errs.append(f"duplicate module name {m.name!r}")
        if not m.name:
            errs.append("module without a name")
        # local checks
        widths = {}
        for s in m.signals:
            if s.name in widths:
                errs.append(f"{m.name}: duplicate signal {s.name!r}")
            if s.width < 1:
                errs.append(f"{m.name}: signal {s.name!r} of width {s.width}")
            widths[s.name] = s.width
        pnames = set()
        for p in m.ports:
            if p.signal in pnames:
                errs.append(f"{m.name}: duplicate port {p.signal!r}")
            pnames.add(p.signal)
            if p.signal not in widths:
                errs.append(f"{m.name}: port {p.signal!r} names no declared signal")
        inames = set()
        for inst in m.instances:
            where = f"{m.name}.{inst.name}"
            if inst.name in inames:
                errs.append(f"{m.name}: duplicate instance {inst.name!r}")
            inames.add(inst.name)
            which = inst.module.WhichOneof("to")
            if which == "local" and inst.module.local not in seen:
                if inst.module.local in v.modules:
                    errs.append(f"{where}: module {inst.module.local!r} used before its definition")
                else:
                    errs.append(f"{where}: undefined module {inst.module.local!r}")
                continue
            tports = v.target_ports(inst.module)
            if tports is None:
                errs.append(f"{where}: unresolved target {inst.module}".replace("\n", " "))
                continue
            tp = dict(tports)
            conns = {}
            for c in inst.connections:
                if c.portname in conns:
                    errs.append(f"{where}: port {c.portname!r} connected twice")
                conns[c.portname] = c.target
            for pname, w in tports:
                if pname not in conns:
                    errs.append(f"{where}: port {pname!r} not connected")
            for pname, t in conns.items():
                if pname not in tp:
                    errs.append(f"{where}: connection to non-existent port {pname!r}")
                    continue
                before = len(errs)
                bits = target_bits(t, widths, errs, f"{where}.{pname}")
                if len(errs) == before and tp[pname] is not None and len(bits) != tp[pname]:
                    errs.append(f"{where}.{pname}: connection width {len(bits)} != port width {tp[pname]}")
        seen.add(m.name)
    enames = set()
    for e in pkg.ext_modules:
        key = (e.name.domain, e.name.name)
        if key in enames:
            errs.append(f"duplicate external module {key}")
        enames.add(key)
        ws = {s.name: s.width for s in e.signals}
        for p in e.ports:
            if p.signal not in ws:
                errs.append(f"external module {key}: port {p.signal!r} names no declared signal")
    if check_tools and not errs:
        errs += tool_acceptance(pkg)
    return errs


def uses_physical_prims(pkg):
    for m in pkg.modules:
        for inst in m.instances:
            if inst.module.WhichOneof("to") == "external" and inst.module.external.domain == "hdl21.primitives":
                return True
    return False


def same_named_externals(pkg):
    """Two external modules of one name in different domains: legal VLSIR, but the netlisters
    have a single namespace and refuse it by design."""
    names = [e.name.name for e in pkg.ext_modules]
    return len(names) != len(set(names))


def netlistable(pkg):
    return not uses_physical_prims(pkg) and not same_named_externals(pkg)


def tool_acceptance(pkg):
    """from_proto and the spice / spectre netlisters accept the package."""
    import io
    import hdl21 as h
    import vlsirtools

    errs = []
    try:
        h.from_proto(pkg)
    except Exception as e:  # noqa
        errs.append(f"from_proto rejects the package: {type(e).__name__}: {str(e)[:200]}")
    if netlistable(pkg):  # netlisters refuse generic physical primitives and same-named externals by design
        for fmt in ("spice", "spectre"):
            try:
                vlsirtools.netlist(pkg=pkg, dest=io.StringIO(), fmt=fmt)
            except Exception as e:  # noqa
                errs.append(f"{fmt} netlister rejects the package: {type(e).__name__}: {str(e)[:200]}")
    return errs


def flatten_pkg(pkg, top_name, prim_ports):
    """Leaf devices and the net of every signal bit at every level under module `top_name`.

    Returns dict(leaves=[{path, kind, params, terms}], sigs={(path, signame, bit): net},
                 insts={path: module name or kind})."""
    v = PkgView(pkg, prim_ports)
    if top_name not in v.modules:
        raise PkgError(f"no module {top_name}")
    parent = {}

    def find(x):
        if x not in parent:
            parent[x] = x
            return x
        r = x
        while parent[r] != r:
            r = parent[r]
        while parent[x] != r:
            parent[x], x = r, parent[x]
        return r

    def union(a, b):
        ra, rb = find(a), find(b)
        if ra != rb:
            parent[ra] = rb

    leaves, sigs, insts = [], {}, {}
    errs = []

    def inst(mname, path, portmap):
        m = v.modules[mname]
        widths = {s.name: s.width for s in m.signals}
        for s in m.signals:
            for i in range(s.width):
                sigs[(path, s.name, i)] = ("n", path, s.name, i)
        if portmap is not None:
            for p in m.ports:
                ext = portmap.get(p.signal)
                if ext is None or len(ext) != widths.get(p.signal, -1):
                    raise PkgError(f"port binding of {mname}.{p.signal} at {path}")
                for i, n in enumerate(ext):
                    union(("n", path, p.signal, i), n)
        for pi in m.instances:
            cpath = path + (pi.name,)
            tports = v.target_ports(pi.module)
            if tports is None:
                raise PkgError(f"unresolved target at {cpath}")
            pm = {}
            for c in pi.connections:
                bits = target_bits(c.target, widths, errs, str(cpath))
                pm[c.portname] = [("n", path, s, i) for s, i in bits]
            which = pi.module.WhichOneof("to")
            if which == "local":
                insts[cpath] = pi.module.local
                inst(pi.module.local, cpath, pm)
            else:
                dom, name = pi.module.external.domain, pi.module.external.name
                kind = f"{dom}/{name}"
                insts[cpath] = kind
                terms = {}
                for pname, w in tports:
                    ids = pm.get(pname)
                    if ids is None or (w is not None and len(ids) != w):
                        raise PkgError(f"leaf {cpath} port {pname} badly connected")
                    for i, n in enumerate(ids):
                        terms[(pname, i)] = n
                params = {p.name: param_str(p.value) for p in pi.parameters}
                leaves.append({"path": cpath, "kind": kind, "params": params, "terms": terms})

    inst(top_name, (), None)
    if errs:
        raise PkgError("; ".join(errs[:3]))
    for leaf in leaves:
        leaf["terms"] = {k: find(n) for k, n in leaf["terms"].items()}
    sigs = {k: find(n) for k, n in sigs.items()}
    return {"leaves": leaves, "sigs": sigs, "insts": insts}


def param_str(pv):
    which = pv.WhichOneof("value")
    if which is None:
        return None
    if which == "prefixed":
        p = pv.prefixed
        num = p.WhichOneof("number")
        return f"prefixed:{getattr(p, num)}:{p.prefix}"
    return f"{which}:{getattr(pv, which)}"
