"""Interpreter: design-program / session-script ops -> real Hdl21 objects and calls.

The op language is documented in DESIGN §3.4 and, precisely, in `OPS` below.  A script
is a flat list of ops (JSON-able lists).  Design ops build or edit the design through
Hdl21's public API; session ops call elaborate / to_proto / netlist, install faults, etc.

OPS
  ["bundle", bid, name, sigs, subs]        sigs [[name,width,kind]], kind in s|i|o|io|p ; subs [[name,bid,flipped]]
  ["ext", xid, name, ports]                ports [[name,width,dir]]
  ["module", mid, name, style]             style proc|class|gen
  ["end", mid]
  ["sig", mid, name, width, vis, dir]      vis i|p ; dir n|i|o|io
  ["bun", mid, name, bid, port, flipped, how?]   how: ctor | mul (a copy out of `3 * B()`) | flip (`flipped(B())`)
  ["inst", mid, iname, target, how, conns] how setattr|add ; conns {port: X}
  ["arr", mid, iname, target, n, how, conns]  how ctor|mul
  ["pair", mid, iname, target, conns]
  ["conn", mid, iname, port, X, how]       how call|setattr|connect
  ["disc", mid, iname, port]
  ["repl", mid, iname, port, X]
  target ::= ["mod", mid] | ["prim", name, {params}] | ["ext", xid, {params}]
  X ::= ["s",name] | ["sl",X,k] | ["sr",X,start,stop,step] | ["cat",X..] | ["pr",iname,port]
      | ["nc",ncid,name|null] | ["b",name] | ["br",name,path..] | ["an",anid,{k:X}] | ["d",{k:X}]
      | ["m",eid,X]
  session: ["elaborate",[mid..],single?] ["to_proto",[mid..],single?] ["netlist",[mid..],fmt]
           ["fault",kind,where,mid,nth,label] ["reset_elab"] ["gc"] ["junk",n]
"""
import gc
import io
import re

from . import seams


class Unsupported(Exception):
    pass


_HEX = re.compile(r"0x[0-9a-fA-F]+")


def norm_exc(e: BaseException):
    """Normalised exception: (type name, message without hierarchical-path lines and addresses)."""
    msg = str(e)
    if msg.startswith("Elaboration Error at hierarchical path"):
        lines = msg.split("\n")[1:]
        while lines and lines[0].startswith("  "):
            lines.pop(0)
        msg = "\n".join(lines)
    msg = _HEX.sub("0x?", msg)
    return [type(e).__name__, msg]


_AST_CACHE = {}


def deliberate(e: BaseException) -> bool:
    """True if `e` was raised by a `raise` statement (somebody decided to report this), False if
    it escaped from an operation that happened to fail (`next()` on an empty iterator, a missing
    key, a constructor called with the wrong arguments...)."""
    import ast
    import linecache

    tb = e.__traceback__
    if tb is None:
        return False
    while tb.tb_next is not None:
        tb = tb.tb_next
    fname, lineno = tb.tb_frame.f_code.co_filename, tb.tb_lineno
    if fname not in _AST_CACHE:
        try:
            src = "".join(linecache.getlines(fname))
            _AST_CACHE[fname] = ast.parse(src) if src else None
        except (SyntaxError, ValueError):
            _AST_CACHE[fname] = None
    tree = _AST_CACHE[fname]
    if tree is None:
        return False
    best = None
    for node in ast.walk(tree):
        if isinstance(node, ast.stmt) and node.lineno <= lineno <= getattr(node, "end_lineno", node.lineno):
            if best is None or (node.end_lineno - node.lineno) <= (best.end_lineno - best.lineno):
                best = node
    return isinstance(best, ast.Raise)


def is_circular_msg(exc):
    return exc is not None and "circular dependency" in exc[1]


DIRS = {"n": "NONE", "i": "INPUT", "o": "OUTPUT", "io": "INOUT"}


class ModEnv:
    """Per-module build environment."""

    def __init__(self, mid, name, style):
        self.mid = mid
        self.name = name
        self.style = style
        self.module = None  # the h.Module, once it exists
        self.objs = {}  # attribute name -> object (signals, instances, bundles...)
        self.memo = {}  # eid / ncid / anid -> object
        self.buffer = []  # ops buffered for class / gen styles until "end"
        self.ended = False
        self.ns = None  # class-body namespace (class style, before end)
        self.gen = None  # the h.Generator (gen style)
        self.body_runs = 0


class Interp:
    def __init__(self, h):
        self.h = h
        self.bundles = {"Diff": h.Diff}
        self._bun_copies = {}
        self.ibtypes = {}
        self.exts = {}
        self.mods = {}
        self.fault_counter = {}
        self.junk_keep = []
        import hdl21.primitives as prims

        self.prims = prims
        # paramclass shared by all generated external modules
        P = type("XP", (), {"a": h.Param(dtype=int, desc="a", default=0), "t": h.Param(dtype=str, desc="t", default="x")})
        self.XP = h.paramclass(P)
        G = type("GP", (), {"k": h.Param(dtype=int, desc="k", default=0), "s": h.Param(dtype=h.Scalar, desc="s", default=1 * h.prefix.m)})
        self.GP = h.paramclass(G)
        # C12: unrelated earlier work that calls the same generator with an *equal* parameter value
        # written with another prefix (1000 micro == 1 milli) before the real call
        self.prior_equal = False

    # ------------------------------------------------------------------ design ops
    def run(self, op):
        kind = op[0]
        fn = getattr(self, "op_" + kind, None)
        if fn is None:
            raise Unsupported(f"unknown op {kind}")
        return fn(*op[1:])

    def op_bundle(self, bid, name, sigs, subs):
        h = self.h
        b = h.Bundle(name=name)
        for sname, width, kind in sigs:
            if kind == "s":
                s = h.Signal(width=width)
            elif kind == "i":
                s = h.Input(width=width)
            elif kind == "o":
                s = h.Output(width=width)
            elif kind == "io":
                s = h.Inout(width=width)
            else:
                s = h.Port(width=width)
            setattr(b, sname, s)
        for sname, sub, flipped in subs:
            setattr(b, sname, self.bundles[sub](flipped=bool(flipped)))
        self.bundles[bid] = b

    def op_ext(self, xid, name, ports, domain="verif"):
        h = self.h
        plist = [
            h.Signal(name=p, width=w, vis=h.signal.Visibility.PORT, direction=h.signal.PortDir[DIRS[d]])
            for p, w, d in ports
        ]
        self.exts[xid] = h.ExternalModule(name=name, port_list=plist, paramtype=self.XP, domain=domain or None)

    def op_module(self, mid, name, style):
        env = ModEnv(mid, name, style)
        self.mods[mid] = env
        if style == "proc":
            env.module = self.h.Module(name=name)
        elif style == "class":
            env.ns = {}
        elif style == "gen":
            pass
        else:
            raise Unsupported(style)

    def op_end(self, mid):
        env = self.mods[mid]
        if env.ended:
            return
        h = self.h
        if env.style == "class":
            cls = type(env.name, (), dict(env.ns))
            env.module = h.module(cls)
            env.ns = None
        elif env.style == "gen":
            buffered = list(env.buffer)
            env.buffer = []

            def body(p):
                env.body_runs += 1
                env.module = h.Module()
                env.objs = {}
                env.memo = {}
                for bop in buffered:
                    self._apply(env, bop)
                return env.module

            body.__name__ = env.name
            body.__qualname__ = env.name
            body.__annotations__ = {"p": self.GP, "return": h.Module}
            env.gen = h.generator(body)
            if self.prior_equal:
                env.gen(k=mid, s=h.Prefixed(number=1000, prefix=h.prefix.Prefix.MICRO))
            m = env.gen(k=mid, s=1 * h.prefix.m)
            env.module = m
        env.ended = True

    def _design(self, op):
        env = self.mods[op[1]]
        if env.style == "gen" and not env.ended:
            env.buffer.append(op)
            return
        self._apply(env, op)

    op_sig = lambda self, *a: self._design(["sig", *a])
    op_bun = lambda self, *a: self._design(["bun", *a])
    op_inst = lambda self, *a: self._design(["inst", *a])
    op_arr = lambda self, *a: self._design(["arr", *a])
    op_pair = lambda self, *a: self._design(["pair", *a])
    op_conn = lambda self, *a: self._design(["conn", *a])
    op_disc = lambda self, *a: self._design(["disc", *a])
    op_repl = lambda self, *a: self._design(["repl", *a])
    op_reinst = lambda self, *a: self._design(["inst", *a])  # same API call: the name is assigned again

    def _put(self, env, name, obj, how="setattr"):
        """Add a named attribute to the module under construction."""
        if env.ns is not None:  # class body
            env.ns[name] = obj
        elif how == "add":
            env.module.add(obj, name=name)
        else:
            setattr(env.module, name, obj)
        env.objs[name] = obj
        return obj

    def _apply(self, env, op):
        h = self.h
        kind = op[0]
        if kind == "sig":
            _, _, name, width, vis, d = op
            if vis == "p":
                s = h.Signal(width=width, vis=h.signal.Visibility.PORT, direction=h.signal.PortDir[DIRS[d]])
            else:
                s = h.Signal(width=width)
            self._put(env, name, s)
        elif kind == "bun":
            _, _, name, bid, port, flipped = op[:6]
            how = op[6] if len(op) > 6 else "ctor"
            B = self.bundles[bid]
            if how == "mul":
                # `n * B()`: copies of one bundle instance, handed out one by one
                key = (id(env), bid, bool(port), bool(flipped))
                spare = self._bun_copies.setdefault(key, [])
                if not spare:
                    spare.extend(3 * B(port=bool(port), flipped=bool(flipped)))
                bi = spare.pop(0)
            elif how == "flip":
                bi = h.flipped(B(port=bool(port), flipped=not bool(flipped)))
            else:
                bi = B(port=bool(port), flipped=bool(flipped))
            self._put(env, name, bi)
        elif kind == "inst":
            _, _, iname, target, how, conns = op
            t = self.target(target)
            inst = h.Instance(of=t) if how == "add" else t()
            self._put(env, iname, inst, how)
            for port, x in conns.items():
                inst.connect(port, self.expr(env, x))
        elif kind == "arr":
            _, _, iname, target, n, how, conns = op
            t = self.target(target)
            if how == "mul_keep":
                # a connected instance is multiplied, and then added in its own right too
                unit = t()
                for port, x in conns.items():
                    unit.connect(port, self.expr(env, x))
                arr = n * unit
                self._put(env, iname, arr)
                self._put(env, iname + "_t", unit, "add")
                return
            if how == "mul":
                arr = n * t()
            else:
                arr = h.InstanceArray(of=t, n=n)
            self._put(env, iname, arr)
            for port, x in conns.items():
                arr.connect(port, self.expr(env, x))
        elif kind == "pair":
            iname, target, conns = op[2], op[3], op[4]
            bid = op[5] if len(op) > 5 else "Diff"
            if bid == "Diff":
                ptype = h.Pair
            else:
                if bid not in self.ibtypes:
                    self.ibtypes[bid] = h.InstanceBundleType(name=f"IB{bid}", bundle=self.bundles[bid])
                ptype = self.ibtypes[bid]
            p = ptype(self.target(target))
            self._put(env, iname, p)
            for port, x in conns.items():
                p.connect(port, self.expr(env, x))
        elif kind == "conn":
            _, _, iname, port, x, how = op
            inst = env.objs[iname]
            val = self.expr(env, x)
            if how == "call":
                inst(**{port: val})
            elif how == "setattr":
                setattr(inst, port, val)
            else:
                inst.connect(port, val)
        elif kind == "disc":
            _, _, iname, port = op
            env.objs[iname].disconnect(port)
        elif kind == "repl":
            _, _, iname, port, x = op
            val = self.expr(env, x)
            if isinstance(val, dict):
                val = h.AnonymousBundle(**val)
            env.objs[iname].replace(port, val)
        else:
            raise Unsupported(kind)

    def target(self, t):
        kind = t[0]
        if kind == "mod":
            env = self.mods[t[1]]
            if env.module is None:
                raise Unsupported("target module not built")
            if env.style == "gen" and env.gen is not None and env.ended:
                # the natural way to instantiate a generated module: call the generator again with
                # the same parameters (memoised: the very same Module comes back)
                return env.gen(k=t[1], s=1 * self.h.prefix.m)
            return env.module
        if kind == "prim":
            return getattr(self.prims, t[1])(**t[2])
        if kind == "ext":
            return self.exts[t[1]](**t[2])
        raise Unsupported(kind)

    def expr(self, env, x):
        h = self.h
        k = x[0]
        if k == "s" or k == "b":
            return env.objs[x[1]]
        if k == "sl":
            return self.expr(env, x[1])[x[2]]
        if k == "sr":
            return self.expr(env, x[1])[slice(x[2], x[3], x[4])]
        if k == "cat":
            return h.Concat(*[self.expr(env, p) for p in x[1:]])
        if k == "pr":
            return getattr(env.objs[x[1]], x[2])
        if k == "nc":
            if x[1] not in env.memo:
                env.memo[x[1]] = h.NoConn(name=x[2]) if x[2] is not None else h.NoConn()
            return env.memo[x[1]]
        if k == "br":
            o = env.objs[x[1]]
            for seg in x[2:]:
                o = getattr(o, seg)
            return o
        if k == "an":
            if x[1] not in env.memo:
                env.memo[x[1]] = h.AnonymousBundle(**{kk: self._anon_member(env, v) for kk, v in x[2].items()})
            return env.memo[x[1]]
        if k == "d":
            return {kk: self._anon_member(env, v) for kk, v in x[1].items()}
        if k == "m":
            if x[1] not in env.memo:
                env.memo[x[1]] = self.expr(env, x[2])
            return env.memo[x[1]]
        if k == "xs":  # a signal owned by another module
            return self.mods[x[1]].objs[x[2]]
        if k == "os":  # a signal owned by no module
            if ("os", x[2]) not in env.memo:
                env.memo[("os", x[2])] = h.Signal(width=x[1], name=x[2])
            return env.memo[("os", x[2])]
        raise Unsupported(k)

    def _anon_member(self, env, v):
        val = self.expr(env, v)
        if isinstance(val, dict):
            return self.h.AnonymousBundle(**val)
        return val

    # ------------------------------------------------------------------ session ops
    def _targets(self, mids, single):
        ts = [self.mods[m].module for m in mids]
        if single and len(ts) == 1:
            return ts[0]
        return ts

    def op_elaborate(self, mids, single=False):
        try:
            self.h.elaborate(self._targets(mids, single))
            return {"ok": True}
        except (Exception, seams.InjectedAbort) as e:  # noqa
            return {"ok": False, "exc": norm_exc(e)}

    def op_to_proto(self, mids, single=False, domain=None):
        try:
            pkg = self.h.to_proto(self._targets(mids, single), domain=domain) if domain else self.h.to_proto(self._targets(mids, single))
            return {"ok": True, "pkg": pkg}
        except (Exception, seams.InjectedAbort) as e:  # noqa
            return {"ok": False, "exc": norm_exc(e)}

    def op_netlist(self, mids, fmt, single=False):
        try:
            dest = io.StringIO()
            self.h.netlist(self._targets(mids, single), dest=dest, fmt=fmt)
            return {"ok": True, "text": dest.getvalue()}
        except (Exception, seams.InjectedAbort) as e:  # noqa
            return {"ok": False, "exc": norm_exc(e)}

    def op_fault(self, kind, where, mid, nth, label):
        h = self.h
        if kind == "boundary":
            # nth: bit 0 = the pass rewrites before it fails (dirty), bit 1 = it is interrupted (BaseException), bit 2 = it raises a ValueError
            cls = seams.make_boundary_fault(h, self.mods[mid].module, label, self.fault_counter, dirty=bool(nth & 1), abort=bool(nth & 2), valuefault=bool(nth & 4))
            e = seams.build_faulty_elaborator(h, "boundary", where, cls)
        else:
            cls = seams.make_midpass_fault(h, where, nth, label, self.fault_counter)
            if cls is None:
                self.fault_counter["mid_base_missing"] = self.fault_counter.get("mid_base_missing", 0) + 1
                return h.elab.reset_elaborator()
            e = seams.build_faulty_elaborator(h, "mid", None, cls)
        h.elab.set_elaborator(e)

    def op_readd(self, mid, name, how):
        """A member the (written, not yet elaborated) module holds is assigned / added to its own name again."""
        m = self.mods[mid].module
        obj = m.get(name)
        if obj is None:
            return
        if how == "set":
            setattr(m, name, obj)
        else:
            m.add(obj)

    def op_reset_elab(self):
        self.h.elab.reset_elaborator()

    def op_gc(self):
        gc.collect()

    def op_junk(self, n):
        # unrelated allocation: shifts id() values of everything built afterwards
        self.junk_keep.append([object() for _ in range(n)])
        self.junk_keep.append(bytearray(n * 7 + 1))


DESIGN_OPS = {"bundle", "ext", "module", "end", "sig", "bun", "inst", "arr", "pair", "conn", "disc", "repl", "reinst"}
EXPORT_OPS = {"elaborate", "to_proto", "netlist"}
