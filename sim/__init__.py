"""Deterministic simulation harness for Hdl21 (see /verif/DESIGN.md)."""
