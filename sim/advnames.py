"""C05 workload: designer names drawn from the elaborator's own naming rules.

Given a valid generated program, rename designer objects (signals, ports, instances,
bundle instances) to names the elaborator would invent for *other* objects of the same
module - `inst_port` (implicit nets behind port references and no-connects),
`bundle_member_path` (flattened bundle leaves), `array_k`, `pair_member` - with 0-2
trailing underscores, and give no-connects names that designer signals already carry.
Renaming is consistent (every reference follows), so the design stays the same design.
"""
import copy

from . import refmodel


def invented_names(d, mid):
    """Names the elaborator may invent inside module `mid` (without trailing underscores)."""
    m = d.mods[mid]
    out = []
    for iname, info in m.insts.items():
        try:
            ports = d.target_ports(info["target"])
        except Exception:  # noqa
            continue
        for port in ports:
            out.append(f"{iname}_{port}")
        if info["kind"] == "arr":
            for k in range(info["n"]):
                out.append(f"{iname}_{k}")
        if info["kind"] == "pair":
            out += [f"{iname}_{mem}" for mem in d.bundles[info.get("bid", refmodel.DIFF)]["sigs"]]
    for bname, (bid, _p, _f) in m.buns.items():
        for path, _w in d.bundle_leaves(bid):
            out.append(bname + "_" + "_".join(path))
    return out


def _sub_x(x, fn):
    """Rebuild expression x applying fn to every node (post-order)."""
    if isinstance(x, list):
        y = [(_sub_x(v, fn) if isinstance(v, (list, dict)) else v) for v in x]
        return fn(y)
    if isinstance(x, dict):
        return {k: _sub_x(v, fn) for k, v in x.items()}
    return x


def rename(ops, d, mid, kind, old, new):
    """kind: 'sig' | 'bun' | 'inst'.  Returns new ops."""
    m = d.mods[mid]
    is_port = kind == "sig" and m.sigs[old][1] == "p" or kind == "bun" and m.buns[old][1]
    out = []

    def in_module(x):
        def fn(n):
            if kind == "sig" and n[0] == "s" and n[1] == old:
                return ["s", new]
            if kind == "bun" and n[0] in ("b", "br") and n[1] == old:
                return [n[0], new] + n[2:]
            if kind == "inst" and n[0] == "pr" and n[1] == old:
                return ["pr", new, n[2]]
            return n

        return _sub_x(x, fn)

    def in_parent(x, pmid):
        # references `inst.old` where inst is an instance of module mid
        pm = d.mods[pmid]

        def fn(n):
            if n[0] == "pr" and n[2] == old and pm.insts.get(n[1], {}).get("target") == ["mod", mid]:
                return ["pr", n[1], new]
            return n

        return _sub_x(x, fn)

    for op in ops:
        op = copy.deepcopy(op)
        k = op[0]
        if k in ("sig", "bun") and op[1] == mid and op[2] == old and kind == k:
            op[2] = new
        elif k in ("inst", "arr", "pair") and op[1] == mid and op[2] == old and kind == "inst":
            op[2] = new
        if k in ("conn", "repl", "disc") and op[1] == mid and kind == "inst" and op[2] == old:
            op[2] = new
        if k in ("conn", "repl") and op[1] == mid:
            op[4] = in_module(op[4])
        if k in ("inst", "arr", "pair") and op[1] == mid:
            ci = 5 if k == "inst" else (6 if k == "arr" else 4)
            op[ci] = {p: in_module(x) for p, x in op[ci].items()}
        if is_port:
            # parents: connection keys and references to the renamed port
            if k in ("conn", "repl", "disc") and op[1] != mid:
                pm = d.mods[op[1]]
                if pm.insts.get(op[2], {}).get("target") == ["mod", mid] and op[3] == old:
                    op[3] = new
            if k in ("conn", "repl") and op[1] != mid:
                op[4] = in_parent(op[4], op[1])
            if k in ("inst", "arr", "pair") and op[1] != mid:
                ci = 5 if k == "inst" else (6 if k == "arr" else 4)
                conns = op[ci]
                if op[3] == ["mod", mid]:
                    conns = {(new if p == old else p): x for p, x in conns.items()}
                op[ci] = {p: in_parent(x, op[1]) for p, x in conns.items()}
        out.append(op)
    return out


def set_noconn_name(ops, mid, ncid, name):
    def fn(n):
        if n[0] == "nc" and n[1] == ncid:
            return ["nc", ncid, name]
        return n

    out = []
    for op in ops:
        op = copy.deepcopy(op)
        if op[0] in ("conn", "repl") and op[1] == mid:
            op[4] = _sub_x(op[4], fn)
        out.append(op)
    return out


def noconns_of(ops, mid):
    found = []

    def fn(n):
        if n[0] == "nc":
            found.append(n[1])
        return n

    for op in ops:
        if op[0] in ("conn", "repl") and op[1] == mid:
            _sub_x(op[4], fn)
    return sorted(set(found))


RESERVED = {"name", "of", "conns", "connect", "disconnect", "replace", "portref", "portrefs", "ports", "signals", "instances", "instarrays", "instbundles", "bundles", "literals", "props", "namespace", "add", "get"}


MAXLEN = 511  # the elaborator's limit for invented names (ElabPass.flatname)


def boundary(ch, ops):
    """Names at the length limit: an instance is renamed so that the name the elaborator wants to
    invent for one of its implicit / no-connected ports is 511 (or 510) characters long, and
    designer signals take that name (and its padded variants up to the limit).  The only correct
    outcomes are a fresh name (impossible here) or an error."""
    d = refmodel.load(ops)
    cands = []
    for mid, m in d.mods.items():
        sigs = [n for n, (w, vis, _d) in m.sigs.items() if vis == "i"]
        for iname, info in m.insts.items():
            if info["kind"] != "inst":
                continue
            try:
                ports = d.target_ports(info["target"])
            except Exception:  # noqa
                continue
            for port in ports:
                x = m.conns[iname].get(port)
                if x is None or (x[0] == "nc" and x[2] is None):
                    cands.append((mid, iname, port, sigs))
    cands = [c for c in cands if len(c[3]) >= 2]
    if not cands:
        return ops, 0
    mid, iname, port, sigs = ch.pick(cands, "bnd")
    t = ch.pick([0, 1], "bndt")
    newi = "L" + "x" * (MAXLEN - t - len(port) - 2)
    target = f"{newi}_{port}"
    assert len(target) == MAXLEN - t
    ops = rename(ops, d, mid, "inst", iname, newi)
    victims = ch.shuffle(sigs, "bndv")[: t + 1]
    for k, v in enumerate(victims):
        d = refmodel.load(ops)
        ops = rename(ops, d, mid, "sig", v, target + "_" * k)
    return ops, 1 + len(victims)


def cross_bundles(ch, ops):
    """Two bundle instances of one module whose flattened member names cross: `b1` has a leaf
    `u_v` (a member of that name, or member `v` of sub-bundle `u`), and another bundle instance
    with a leaf `v` is renamed `b1_u` - both want the flat name `b1_u_v`.  Which of the two gets
    the fresh name depends on the order of flattening, in this module and in every parent that
    connects the two (if they are ports)."""
    d = refmodel.load(ops)
    cands = []
    for mid, m in d.mods.items():
        taken = set(m.sigs) | set(m.buns) | set(m.insts)
        for b1, (bid1, _p1, _f1) in m.buns.items():
            for path1, _w1 in d.bundle_leaves(bid1):
                flat1 = "_".join(path1)
                for b2, (bid2, _p2, _f2) in m.buns.items():
                    if b2 == b1:
                        continue
                    for path2, _w2 in d.bundle_leaves(bid2):
                        tail = "_".join(path2)
                        if flat1.endswith("_" + tail) and len(flat1) > len(tail) + 1:
                            new = f"{b1}_{flat1[: -len(tail) - 1]}"
                            if new not in taken and new not in RESERVED:
                                cands.append((mid, b2, new))
    if not cands:
        return ops, 0
    mid, old, new = ch.pick(sorted(set(cands)), "cross")
    return rename(ops, d, mid, "bun", old, new), 1


def adversarial(ch, ops):
    """Apply 1-4 adversarial renamings. Returns (ops, number applied)."""
    if ch.chance(1, 10):
        ops2, n = boundary(ch, ops)
        if n:
            return ops2, n
    if ch.chance(1, 4):
        ops2, n = cross_bundles(ch, ops)
        if n:
            return ops2, n
    applied = 0
    for _ in range(ch.rint(1, 4, "nadv")):
        d = refmodel.load(ops)
        mids = [mid for mid, m in d.mods.items() if m.insts]
        if not mids:
            break
        mid = ch.pick(mids, "advmod")
        m = d.mods[mid]
        cands = invented_names(d, mid)
        if not cands:
            continue
        taken = set(m.sigs) | set(m.buns) | set(m.insts)
        if ch.chance(1, 4):
            ncs = noconns_of(ops, mid)
            if ncs:
                pool = list(m.sigs) + cands
                nm = ch.pick(pool, "ncname") + "_" * ch.pick([0, 0, 1], "ncus")
                ops = set_noconn_name(ops, mid, ch.pick(ncs, "ncid"), nm)
                applied += 1
                continue
        new = ch.pick(cands, "advname") + "_" * ch.pick([0, 0, 0, 1, 2], "advus")
        if new in taken or new in RESERVED:
            continue
        victims = [("sig", n) for n in m.sigs] + [("inst", n) for n in m.insts] + [("bun", n) for n in m.buns]
        kind, old = ch.pick(victims, "victim")
        # a port renamed to `new` becomes a connection key / attribute of parents' instances
        ops = rename(ops, d, mid, kind, old, new)
        applied += 1
    return ops, applied
