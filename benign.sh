#!/bin/bash
# Developer tool: run quick checks against a scratch worktree holding a *benign* variant of the
# library (property-preserving refactor); any VIOLATION here is a false alarm of the machinery.
# usage: benign.sh <worktree> <props...>     (VERIF_SEED honoured)
wt=$1; shift
vc=$(mktemp -d /tmp/bxv.XXXX)
cd /verif && cp -r check sim profiles known_findings.json properties.jsonl replays evidence $vc/ && rm -f $vc/replays/C*.json
for p in "$@"; do
  out=$(cd $vc && VERIF_REPO=$wt /venv/bin/python ./check $p --tier quick 2>&1)
  rc=$?
  echo "== $(basename $wt) $p rc=$rc $(echo "$out" | grep -E 'runs,' | tr '\n' ' ' | cut -c1-300)"
  if [ $rc -ne 0 ]; then echo "$out" | grep -E "violated clause|^\[C[0-9]+\]   |VIOLATION|HARNESS" | head -40; fi
done
rm -rf $vc
