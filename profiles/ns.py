"""Profile `ns` (C18): edit histories on one Module / one Bundle against a dict model.

Model = dict name -> (kind, token).  After every operation the real object's `get`,
attribute access, per-kind views and the combined namespace must agree with the model;
rejected operations must raise and change nothing; at the end the exported module must
equal the class-style definition of the model's final content.
"""
from sim import interp, netview, seams
from sim.choices import Choices, hash64
from sim.procs import template_init

NAMES = ["a", "b", "c", "d"]
MOD_KINDS = ["sig", "port_i", "port_o", "port_io", "port_n", "inst", "arr", "pair", "bun", "bunport"]
BUN_KINDS = ["sig", "port_i", "bun"]
MOD_BANNED = ["ports", "signals", "instances", "instarrays", "instbundles", "bundles", "literals", "props", "namespace", "add", "get", "bundle_ports"]
BUN_BANNED = ["signals", "bundles", "namespace", "add", "get", "props"]
BAD_VALUES = ["int", "str", "module", "generator", "primcall", "extcall", "none", "list"]


def generate(seed, mode="c18", opts=None):
    ch = Choices(seed)
    target = ch.weighted([(3, "module"), (1, "bundle")], "target")
    kinds = MOD_KINDS if target == "module" else BUN_KINDS
    banned = MOD_BANNED if target == "module" else BUN_BANNED
    n = ch.rint(5, 40, "nops")
    ops = []
    elaborated = False
    for i in range(n):
        k = ch.weighted(
            [(10, "set"), (4, "add"), (3, "add_named"), (3, "get"), (2, "reset"), (1, "readd"), (1, "banned"), (1, "badval"), (1, "del"), (1, "subclass"), (1 if target == "module" and not elaborated and i > 2 else 0, "elaborate"), (1, "add_anon"), (1, "add_conflict"), (1, "alias")],
            "opkind",
        )
        name = ch.pick(NAMES, "name")
        kind = ch.pick(kinds, "vkind")
        width = ch.rint(1, 3, "w")
        if k == "set":
            ops.append(["set", name, kind, width])
        elif k == "add":
            ops.append(["add", name, kind, width])
        elif k == "add_named":
            ops.append(["add_named", name, kind, width])
        elif k == "get":
            ops.append(["get", ch.pick(NAMES + ["zz"], "gname")])
        elif k in ("reset", "readd"):
            ops.append([k, name])
        elif k == "banned":
            # reserved names, through every door: assignment, add() of a named value, add(name=)
            ops.append(["banned", ch.pick(banned + ["name"], "bname"), kind, width, ch.pick(["set", "add", "add_named"], "bvia")])
            if ch.chance(1, 4):
                # a name that attribute access never looks up in the namespace
                ops.append(["underscore", ch.pick(["_x", "_tmp", "__a"], "uname"), kind, width])
        elif k == "badval":
            ops.append(["badval", name, ch.pick(BAD_VALUES, "bad")])
        elif k == "del":
            ops.append(["del", name])
        elif k == "subclass":
            ops.append(["subclass"])
        elif k == "add_anon":
            ops.append(["add_anon", kind, width])
        elif k == "add_conflict":
            ops.append(["add_conflict", name, ch.pick(NAMES, "n2"), kind, width])
        elif k == "alias":
            # a member is assigned to a second name that must be refused (a reserved one; any, once
            # elaborated): the refusal leaves the member as it was, its name included
            ops.append(["alias", name, ch.pick(banned if not elaborated else banned + NAMES, "aname")])
        elif k == "elaborate":
            # (half of the time the first attempt is made together with a nameless module, which the
            # last pass refuses - after it has been through the edited module)
            ops.append(["elaborate", ch.chance(1, 2)])
            elaborated = True
    sched = [ch.pick(seams.POLICIES, "policy"), 0]
    # the class-style twin of the final content: some values already carry a name (their key's or
    # another), and the body holds underscore-prefixed temporaries, HDL-valued ones included
    cls = {"pre": {}, "tmp": []}
    if ch.chance(1, 2):
        for nm in NAMES:
            if ch.chance(1, 3):
                cls["pre"][nm] = ch.pick([nm, nm, "q"] + NAMES, "prename")
        for _ in range(ch.pick([0, 0, 1, 2], "ntmp")):
            cls["tmp"].append(ch.pick(kinds + ["int", "str"], "tmpkind"))
    return {"profile": "ns", "mode": mode, "seed": seed, "target": target, "ops": ops, "sched": sched, "cls": cls}


def make_value(h, env, kind, width):
    """A fresh HDL object of `kind` (never re-used under a second name)."""
    if kind == "sig":
        return h.Signal(width=width)
    if kind == "port_i":
        return h.Input(width=width)
    if kind == "port_o":
        return h.Output(width=width)
    if kind == "port_io":
        return h.Inout(width=width)
    if kind == "port_n":
        return h.Port(width=width)
    if kind == "inst":
        return env["E"]()
    if kind == "arr":
        return h.InstanceArray(of=env["E"], n=width)
    if kind == "pair":
        return h.Pair(env["E"])
    if kind == "bun":
        return env["B"]()
    if kind == "bunport":
        return env["B"](port=True)
    raise ValueError(kind)


VIEW_OF = {"sig": "signals", "port_i": "ports", "port_o": "ports", "port_io": "ports", "port_n": "ports", "inst": "instances", "arr": "instarrays", "pair": "instbundles", "bun": "bundles", "bunport": "bundles"}
BVIEW_OF = {"sig": "signals", "port_i": "signals", "bun": "bundles"}


def snapshot(obj, views):
    snap = {v: dict(getattr(obj, v)) for v in views}
    snap["namespace"] = dict(obj.namespace)
    return snap


def check_state(h, obj, model, target):
    """Returns None or a description of the first disagreement with the model."""
    views = sorted(set((VIEW_OF if target == "module" else BVIEW_OF).values()))
    vof = VIEW_OF if target == "module" else BVIEW_OF
    ns = obj.namespace
    if set(ns.keys()) != set(model.keys()):
        return f"namespace keys {sorted(ns.keys())} != model {sorted(model.keys())}"
    for name, (kind, val) in model.items():
        if obj.get(name) is not val:
            return f"get({name!r}) is not the object last assigned"
        if getattr(obj, name) is not val:
            return f"attribute {name!r} is not the object last assigned"
        if val.name != name:
            return f"object at {name!r} is named {val.name!r}"
        for v in views:
            inview = name in getattr(obj, v)
            want = vof[kind] == v
            if inview != want:
                return f"{name!r} ({kind}) {'is' if inview else 'is not'} in view {v}"
            if inview and getattr(obj, v)[name] is not val:
                return f"view {v}[{name!r}] is a stale object"
        if target == "module":
            if val._parent_module is not obj:
                return f"{name!r}: _parent_module is not the module"
            if isinstance(val, h.Signal):
                isport = val.vis == h.signal.Visibility.PORT
                if (name in obj.ports) != isport:
                    return f"signal {name!r}: port visibility {isport} but in ports = {name in obj.ports}"
    for v in views:
        extra = set(getattr(obj, v).keys()) - set(model.keys())
        if extra:
            return f"view {v} holds names {sorted(extra)} unknown to the namespace"
    for nm in NAMES + ["zz"]:
        if nm not in model and obj.get(nm) is not None:
            return f"get({nm!r}) returns something for an unknown name"
    return None


def check_agreement(obj, target, names):
    """Model-free (used once elaboration has rewritten the module): for every name, get(),
    attribute access and the views say the same thing."""
    views = sorted(set((VIEW_OF if target == "module" else BVIEW_OF).values()))
    cands = set(names) | set(obj.namespace.keys())
    for v in views:
        cands |= set(getattr(obj, v).keys())
    for n in sorted(cands):
        g = obj.get(n)
        try:
            a = getattr(obj, n)
        except AttributeError:
            a = None
        held = [(v, getattr(obj, v)[n]) for v in views if n in getattr(obj, v)]
        if g is None:
            if a is not None or held:
                return f"{n!r}: get() returns nothing, attribute access gives {a!r}, views holding it: {[v for v, _ in held]}"
        else:
            if a is not g:
                return f"{n!r}: get() returns {g!r}, attribute access {'raises' if a is None else 'gives another object'}"
            if len(held) != 1 or held[0][1] is not g:
                return f"{n!r}: get() returns {g!r}; views holding the name: {[v for v, _ in held]}"
    return None


def canon_module(pmod):
    """Order-insensitive content of an exported module (name excluded)."""
    sigs = sorted((s.name, s.width) for s in pmod.signals)
    ports = sorted((p.signal, int(p.direction)) for p in pmod.ports)
    insts = sorted((i.name, str(i.module).replace("\n", " "), sorted((c.portname, str(c.target)) for c in i.connections)) for i in pmod.instances)
    return [sigs, ports, insts]


def execute(scn):
    T = template_init()
    h = T["h"]
    seams.set_sched(seams.Sched(scn["sched"][0], scn["sched"][1]))
    res = {"seed": scn.get("seed"), "findings": [], "probes": {}, "n_ops": len(scn["ops"]), "faults": {}}
    probes = res["probes"]

    def probe(name, n=1):
        probes[name] = probes.get(name, 0) + n

    def fail(clause, detail):
        res["findings"].append({"prop": "C18", "clause": clause, "detail": [detail]})

    target = scn["target"]
    E = h.Module(name="E")
    Bd = h.Bundle(name="Bd")
    Bd.x = h.Signal()
    Bd.y = h.Signal(width=2)
    env = {"E": E, "B": Bd}

    @h.paramclass
    class GP:
        k = h.Param(dtype=int, desc="k", default=0)

    def gbody(p: GP) -> h.Module:
        return h.Module()

    G = h.generator(gbody)
    bad_values = {"int": 5, "str": "x", "module": E, "generator": G, "primcall": h.R(r=1), "extcall": None, "none": None, "list": [h.Signal()]}
    obj = h.Module(name="Edited") if target == "module" else h.Bundle(name="EditedB")
    views = sorted(set((VIEW_OF if target == "module" else BVIEW_OF).values()))
    model = {}
    elaborated = False
    reuse_other_kind = 0
    for k, op in enumerate(scn["ops"]):
        kind = op[0]
        before = snapshot(obj, views)
        expect_reject = elaborated and kind in ("set", "add", "add_named")
        try:
            if kind in ("set", "add", "add_named"):
                name, vk, w = op[1], op[2], op[3]
                val = make_value(h, env, vk, w)
                if kind == "set":
                    setattr(obj, name, val)
                elif kind == "add":
                    val.name = name
                    got = obj.add(val)
                    if not elaborated and got is val:
                        probe("add_returned_its_argument")
                else:
                    got = obj.add(val, name=name)
                if expect_reject:
                    fail("accepted-after-elaboration", f"op {k} {op}: addition after elaborate was accepted")
                    break
                if name in model and model[name][0] != vk:
                    reuse_other_kind += 1
                    probe("name_reused_for_other_kind")
                elif name in model:
                    probe("name_reused_same_kind")
                model[name] = (vk, val)
            elif kind in ("reset", "readd"):
                # the object a name already holds is assigned / added to that very name again
                if elaborated or op[1] not in model:
                    continue
                cur = model[op[1]][1]
                if kind == "reset":
                    setattr(obj, op[1], cur)
                else:
                    obj.add(cur)
                probe("idempotent_reassignment")
            elif kind == "get":
                got = obj.get(op[1])
                if not elaborated:
                    want = model[op[1]][1] if op[1] in model else None
                    if got is not want:
                        fail("get", f"op {k}: get({op[1]!r}) returned the wrong object")
            elif kind == "elaborate":
                if len(op) > 1 and op[1]:
                    try:
                        h.elaborate([obj, h.Module()])
                        probe("nameless_sibling_accepted")
                    except Exception:  # noqa
                        probe("first_elaboration_failed_on_nameless_sibling")
                h.elaborate(obj)
                elaborated = True
                probe("elaborated_mid_history")
                bad = check_agreement(obj, target, list(model) + NAMES)
                if bad:
                    fail("views", f"after op {k} {op} (the module has been elaborated): {bad}")
                    break
                probe("state_checks_after_elaboration")
                continue
            elif kind == "banned":
                via = op[4] if len(op) > 4 else "set"
                val = make_value(h, env, op[2], op[3])
                if via == "set":
                    setattr(obj, op[1], val)
                elif via == "add":
                    val.name = op[1]
                    obj.add(val)
                else:
                    obj.add(val, name=op[1])
                fail("banned-accepted", f"op {k}: reserved name {op[1]!r} was accepted ({via})")
            elif kind == "alias":
                if op[1] not in model or op[1] == op[2]:
                    continue
                cur = model[op[1]][1]
                try:
                    setattr(obj, op[2], cur)
                except Exception:  # noqa
                    probe("rejected:alias")
                    if cur.name != op[1]:
                        fail("rejected-op-changed-state", f"op {k} {op} raised, but member {op[1]!r} is now named {cur.name!r}")
                        break
                    if snapshot(obj, views) != before and not elaborated:
                        fail("rejected-op-changed-state", f"op {k} {op} raised but changed the module")
                        break
                    continue
                fail("accepted-after-elaboration" if elaborated else "banned-accepted", f"op {k} {op}: a member was accepted under a second name that must be refused")
                break
            elif kind == "underscore":
                # add() under a name that attribute access does not resolve: refused, or else coherent
                val = make_value(h, env, op[2], op[3])
                obj.add(val, name=op[1])
                probe("underscore_name_accepted")
                try:
                    same = getattr(obj, op[1]) is val
                except AttributeError:
                    same = False
                if obj.get(op[1]) is not val or not same:
                    fail("views", f"op {k}: add(name={op[1]!r}) was accepted, but get() and attribute access do not both return the object")
                break
            elif kind == "badval":
                setattr(obj, op[1], bad_values[op[2]])
                fail("badval-accepted", f"op {k}: non-HDL value ({op[2]}) was accepted as attribute {op[1]!r}")
            elif kind == "del":
                delattr(obj, op[1] if op[1] in model else ("signals" if k % 2 else op[1]))
                fail("del-accepted", f"op {k}: attribute deletion was accepted")
            elif kind == "subclass":
                base = h.Module if target == "module" else h.Bundle
                type("Sub", (base,), {})
                fail("subclass-accepted", f"op {k}: sub-classing was accepted")
            elif kind == "add_anon":
                # the property does not say what add() of an unnamed object does: refused on the
                # pinned tree; if a tree accepts it the model cannot name it and the history ends
                obj.add(make_value(h, env, op[1], op[2]))
                probe("anon_add_accepted")
                break
            elif kind == "add_conflict":
                # likewise for add(val named x, name=y): refused on the pinned tree; a tree that
                # accepts it must store the object under exactly one of the two names
                val = make_value(h, env, op[3], op[4])
                val.name = op[1]
                obj.add(val, name=op[2])
                probe("conflicting_add_accepted")
                if elaborated:
                    fail("accepted-after-elaboration", f"op {k} {op}: addition after elaborate was accepted")
                    break
                if val.name not in (op[1], op[2]):
                    fail("views", f"op {k}: add() with names {op[1]!r} / {op[2]!r} stored the object as {val.name!r}")
                    break
                model[val.name] = (op[3], val)
        except Exception as e:  # noqa
            if kind in ("set", "add", "add_named", "get", "elaborate", "reset", "readd") and not expect_reject:
                if kind == "elaborate":
                    res["discard"] = f"elaborate failed: {interp.norm_exc(e)}"
                    return res
                fail("rejected-valid-op", f"op {k} {op} raised {interp.norm_exc(e)}")
                break
            probe("rejected:" + kind)
            after = snapshot(obj, views)
            if after != before and not elaborated:
                fail("rejected-op-changed-state", f"op {k} {op} raised but changed the module")
                break
            continue
        if res["findings"]:
            break
        if not elaborated:
            bad = check_state(h, obj, model, target)
            if bad:
                fail("views", f"after op {k} {op}: {bad}")
                break
            probe("state_checks")
        else:
            bad = check_agreement(obj, target, list(model) + NAMES)
            if bad:
                fail("views", f"after op {k} {op} (the module has been elaborated): {bad}")
                break
            probe("state_checks_after_elaboration")
    # final: exported module == class-style definition of the model's content
    c18_clean = not res["findings"]
    if target == "module" and not elaborated:
        try:
            pkg = h.to_proto(obj)
            cv = netview.closed_violations(pkg, netview.prim_ports_table(), check_tools=False)
            if cv:
                res["findings"].append({"prop": "C06", "clause": "closed", "detail": cv[:3]})
            if not c18_clean:
                raise StopIteration
            edited = [m for m in pkg.modules if m.name.endswith("Edited")][0]
            body = {}
            cv_ = scn.get("cls") or {"pre": {}, "tmp": []}
            for name, (vk, _val) in model.items():
                body[name] = make_value(h, env, vk, _val.width if isinstance(_val, h.Signal) else (_val.n if vk == "arr" else 1))
                if cv_["pre"].get(name):
                    body[name].name = cv_["pre"][name]
                    probe("class_body_prenamed" + ("_same" if cv_["pre"][name] == name else "_other"))
            for ti, tk in enumerate(cv_["tmp"]):
                body[f"_t{ti}"] = 7 if tk == "int" else ("x" if tk == "str" else make_value(h, env, tk, 2))
                probe("class_body_temporary" + ("" if tk in ("int", "str") else "_hdl"))
            cls = type("ClassStyle", (), body)
            try:
                ref = h.module(cls)
            except Exception as e:  # noqa
                fail("class-style-refused", f"class body {sorted(body)} (preset names {cv_['pre']}) raised {interp.norm_exc(e)}; the same assignments were accepted one by one")
                raise StopIteration
            if set(ref.namespace.keys()) != set(model.keys()):
                fail("class-style-namespace", f"class-style namespace {sorted(ref.namespace.keys())} != procedural {sorted(model.keys())}")
                raise StopIteration
            rpkg = h.to_proto(ref)
            rmod = [m for m in rpkg.modules if m.name.endswith("ClassStyle")][0]
            if canon_module(edited) != canon_module(rmod):
                fail("export-differs-from-class-style", f"edited: {canon_module(edited)} class-style: {canon_module(rmod)}")
            else:
                probe("export_equals_class_style")
        except StopIteration:
            pass
        except Exception as e:  # noqa
            probe("final_export_refused")
            res["final_exc"] = interp.norm_exc(e)
    if target == "bundle" and c18_clean:
        cv_ = scn.get("cls") or {"pre": {}, "tmp": []}
        body = {}
        for name, (vk, _val) in model.items():
            body[name] = make_value(h, env, vk, _val.width if isinstance(_val, h.Signal) else 1)
            if cv_["pre"].get(name):
                body[name].name = cv_["pre"][name]
        for ti, tk in enumerate(cv_["tmp"]):
            body[f"_t{ti}"] = 7 if tk == "int" else ("x" if tk == "str" else make_value(h, env, tk, 2))
        shape = lambda b: sorted((n, type(v).__name__, (v.width, str(v.vis)) if isinstance(v, h.Signal) else v.of.name) for n, v in b.namespace.items())
        try:
            ref = h.bundle(type("ClassStyleB", (), body))
            if shape(ref) != shape(obj) or any(v.name != n for n, v in ref.namespace.items()):
                fail("class-style-namespace", f"class-style bundle {shape(ref)} != procedural {shape(obj)}")
            else:
                probe("bundle_equals_class_style")
        except Exception as e:  # noqa
            fail("class-style-refused", f"bundle class body {sorted(body)} (preset names {cv_['pre']}) raised {interp.norm_exc(e)}")
    res["nontrivial"] = len(model) >= 2
    res["sig"] = hash64(str(scn["ops"]), target)
    res["sched"] = seams.get_sched().stats()
    return res


def same_failure(f1, f2):
    return f1["prop"] == f2["prop"] and f1["clause"] == f2["clause"]
