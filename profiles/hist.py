"""Profile `hist`: sessions of elaborate / to_proto / netlist calls (C07) with injected
failures and continuations (C08), judged against a fresh-process oracle.

The fresh-state oracle is a fork of the pristine template that builds the design as the
script describes it at that point - every earlier session call, fault and refused edit
deleted - and performs the one call being compared under the default elaborator.
"""
import hashlib

from sim import gen, interp, netview, procs, refmodel, seams
from sim.choices import Choices, hash64
from sim.procs import template_init
from profiles import conn as connp

SESSION_OPS = {"elaborate", "to_proto", "netlist", "fault", "reset_elab", "gc", "junk", "expect_raise", "regen"}


# --------------------------------------------------------------------------------------
# generation
# --------------------------------------------------------------------------------------


def gen_call(ch, ended, netlistable, force=None):
    kind = force or ch.weighted([(3, "to_proto"), (2, "elaborate"), (1 if netlistable else 0, "netlist")], "callkind")
    k = ch.weighted([(5, 1), (2, 2), (1, 3)], "ntargets")
    targets = [ch.pick(ended, "target") for _ in range(min(k, len(ended) + 1))]
    # no duplicates inside one list (exporting a module twice in one package is an export-name clash)
    seen, ts = set(), []
    for t in targets:
        if t not in seen:
            seen.add(t)
            ts.append(t)
    single = len(ts) == 1 and ch.chance(1, 2)
    if kind == "netlist":
        return ["netlist", ts, ch.pick(["spice", "spice", "spectre", "xyce"], "fmt"), single]
    return [kind, ts, single]


def generate(seed, mode="c07", opts=None):
    ch = Choices(seed)
    base = {"physical": False} if ch.chance(2, 3) else None
    cfg = gen.draw_cfg(ch, base)
    cfg["n_mods"] = max(cfg["n_mods"], ch.rint(2, 5, "n_mods2"))
    if mode == "c08":
        cfg["arrays"] = cfg["arrays"] or ch.chance(1, 2)
    ops, mids, g = gen.gen_design(ch, cfg)
    if ch.chance(1, 5) and len(mids) >= 2:
        # two unrelated modules (neither contains the other) under one name: legal as long as
        # they are never exported in one package
        pairs = [(a, b) for a in mids for b in mids if a < b and a not in hierarchy(g.d, [b]) and g.d.mods[a].style != "gen" and g.d.mods[b].style != "gen"]
        if pairs:
            a, b = ch.pick(pairs, "samename")
            nm = g.d.mods[a].name
            ops = [(["module", b, nm, op[3]] if (op[0] == "module" and op[1] == b) else op) for op in ops]
            g.d.mods[b].name = nm
    netlistable = not cfg["physical"]
    script, ended = [], []
    density = ch.rint(1, 3, "density")
    for op in ops:
        script.append(op)
        if op[0] == "end":
            ended.append(op[1])
            if ch.chance(density, 4):
                for _ in range(ch.rint(1, 2, "ncalls")):
                    script.append(gen_call(ch, ended, netlistable))
            if ch.chance(1, 10):
                script.append(["gc"])
            if ch.chance(1, 10):
                script.append(["junk", ch.rint(1, 50, "junk") * 13])
    # refused edits: additions to a module that some earlier call elaborated completely
    covered = set()
    for op in script:
        if op[0] in interp.EXPORT_OPS:
            covered |= hierarchy(g.d, op[1])
    for _ in range(ch.rint(0, 2, "nrefused")):
        m = ch.pick(sorted(covered) or ended, "refused")
        mm = g.d.mods[m]
        taken = list(mm.sigs) + list(mm.insts) + list(mm.buns)
        if taken and ch.chance(1, 2):
            nm = ch.pick(taken, "refusedname")  # the refusal must not disturb the attribute that holds the name
        else:
            nm = f"late{len(script)}"
        script.append(["expect_raise", ["sig", m, nm, 1, "i", "n"]])
        insts_ = sorted(n_ for n_, i_ in mm.insts.items() if i_["kind"] == "inst")
        sigs_ = sorted(n_ for n_, (w_, _v, _d) in mm.sigs.items() if w_ == 1)
        if insts_ and sigs_ and ch.chance(1, 2):
            # ... and a connection made on one of its instances, to a port name not connected so far
            li = ch.pick(insts_, "lateinst")
            if ch.chance(1, 2) and mm.conns.get(li):
                # ... or replace() on one of its existing connections
                script.append(["expect_raise", ["repl", m, li, ch.pick(sorted(mm.conns[li]), "lateport"), ["s", ch.pick(sigs_, "latesig")]]])
            else:
                script.append(["expect_raise", ["conn", m, li, f"latep{len(script)}", ["s", ch.pick(sigs_, "latesig")], "connect"]])
    for _ in range(ch.rint(1, 3, "nfinal")):
        script.append(gen_call(ch, ended, netlistable))
    scn = {
        "profile": "hist",
        "mode": mode,
        "seed": seed,
        "ops": script,
        "sched": [ch.pick(seams.POLICIES, "policy"), ch.draw(1 << 30, "schedseed")],
    }
    if mode == "c08":
        scn["ops"] = inject_faults(ch, script, g, ended, netlistable)
    return scn


def hierarchy(design, mids):
    try:
        return set(refmodel.reachable(design, mids))
    except refmodel.IllFormed:
        return set(mids)


def inject_faults(ch, script, g, ended, netlistable):
    """0-2 failures per session, each followed by continuations (DESIGN §5 C08)."""
    if ch.chance(1, 4):
        return script  # fault-free configuration of the same workload
    design = g.d
    out = list(script)
    nfaults = ch.rint(1, 2, "nfaults")
    tainted = set()
    min_at = 0
    for fno in range(nfaults):
        label = f"F{fno}"
        design = refmodel.load([op for op in out if op[0] in refmodel.DESIGN_OPS])
        # where: after some module's end, before the final calls
        # blocks are placed in script order, so that "earlier failure" means the same thing at
        # generation time and at run time
        ends = [i for i, op in enumerate(out) if op[0] == "end" and i + 1 >= min_at]
        if not ends:
            break
        at = ch.pick(ends, "fault_at") + 1
        done = [op[1] for op in out[:at] if op[0] == "end"]
        victim_top = ch.pick(done, "victim_top")
        hier = sorted(hierarchy(design, [victim_top]))
        kind = ch.weighted([(4, "boundary"), (3, "mid"), (3, "design"), (3 if tainted else 7, "parent_repair")], "fkind")
        block = []
        call = gen_call(ch, [victim_top], netlistable)
        if kind == "parent_repair":
            # only as the first failure of a session: its edit must hit a module that is on the
            # failing path (and therefore refused from then on), never one that an earlier failed
            # call merely left partly elaborated (contested ground)
            pr = None
            if not tainted:
                # any finished top whose hierarchy offers a (parent, sub-module) pair will do
                for vt in [victim_top] + [t for t in done if t != victim_top]:
                    hier_ = sorted(hierarchy(design, [vt]))
                    pr = plan_parent_repair(ch, out[:at], design, hier_, fno)
                    if pr is not None:
                        if vt != victim_top:
                            victim_top, hier = vt, hier_
                            call = gen_call(ch, [victim_top], netlistable)
                        break
            if pr is None:
                kind = "boundary"
            else:
                offender, parent, repair_ops = pr
                # mostly late: the parent has then been through the early passes, which its edit needs again
                pos = ch.pick([ch.rint(1, seams.DEFAULT_NPASSES, "pos"), ch.rint(6, seams.DEFAULT_NPASSES, "poslate"), ch.rint(6, seams.DEFAULT_NPASSES, "poslate")], "poswhich")
                block.append(["fault", "boundary", pos, offender, 0, label])
                block.append(call)
                if ch.chance(1, 2):
                    block.append(list(call))  # retry unchanged first
                block.append(["reset_elab"])
                block += repair_ops
                block.append(list(call))
                block.append(gen_call(ch, [parent], netlistable))
                out = out[:at] + block + out[at:]
                tainted |= set(hier)
                min_at = at + len(block)
                continue
        if kind == "boundary":
            # half of the time the failure is at the top of the call and late: every sub-module is
            # then left partly elaborated (and clean), which later parents must not notice
            if ch.chance(1, 2):
                offender = victim_top
                pos = ch.rint(4, seams.DEFAULT_NPASSES, "pos")
            else:
                offender = ch.pick(hier, "offender")
                pos = ch.rint(0, seams.DEFAULT_NPASSES, "pos")
            # half of these passes rewrite the offender before they fail (dirty), wherever they stand
            # ... and one in five is interrupted (a BaseException) instead of failing
            block.append(["fault", "boundary", pos, offender, (1 if ch.chance(1, 2) else 0) + (ch.weighted([(3, 0), (1, 2), (1, 4)], "fexc")), label])
        elif kind == "mid":
            # a rewriting pass that has something to rewrite in this hierarchy, if there is one
            have = []
            for m_ in hier:
                mm = design.mods[m_]
                if any(i_["kind"] == "arr" for i_ in mm.insts.values()):
                    have.append("ArrayFlattener")
                if any(i_["kind"] == "pair" for i_ in mm.insts.values()):
                    have.append("InstBundleElabPass")
                if mm.buns:
                    have.append("BundleFlattener")
            base = ch.pick(have or ["ArrayFlattener", "BundleFlattener", "InstBundleElabPass"], "midbase")
            block.append(["fault", "mid", base, None, ch.weighted([(3, 1), (2, 2), (1, 3)], "nth"), label])
            offender = None
        else:
            # (not in a module that an earlier failed call left partly elaborated: edits to such
            # modules are contested ground, DESIGN 12.3)
            planted = plant_width_fault(ch, out[:at], design, [m_ for m_ in hier if m_ not in tainted], fno)
            if planted is None:
                offender = ch.pick(hier, "offender")
                block.append(["fault", "boundary", ch.rint(0, seams.DEFAULT_NPASSES, "pos"), offender, 0, label])
                kind = "boundary"
            else:
                offender, bad_ops, repair_ops = planted
                block += bad_ops
        block.append(call)
        # continuations
        conts = ch.shuffle(["retry", "fix_retry", "other", "sibling", "new_parent"], "conts")[: ch.rint(1, 5, "nconts")]
        fixed = False
        for c in conts:
            if c == "retry" and not fixed:
                block.append(list(call))
            elif c == "fix_retry" and not fixed:
                if kind == "design":
                    block += repair_ops
                else:
                    block.append(["reset_elab"])
                fixed = True
                block.append(list(call))
                if ch.chance(1, 2):
                    block.append(gen_call(ch, [victim_top], netlistable))
            elif c == "other":
                if ch.chance(1, 2) and not fixed and kind != "design":
                    pass  # leave the faulty elaborator installed: it must be a no-op elsewhere
                others = [m for m in done if offender is None or offender not in hierarchy(design, [m])]
                if others:
                    block.append(gen_call(ch, others, netlistable))
            elif c == "sibling":
                sibs = [m for m in done if m != victim_top]
                if sibs:
                    block.append(gen_call(ch, sibs, netlistable))
            elif c == "new_parent":
                # a brand-new parent of a *good* sub-module of the failed design, wiring its ports
                # (bundle-valued ones by port reference or no-connect) as a first-time user would
                good = [m for m in hier if offender is not None and offender not in hierarchy(design, [m]) and design.mods[m].style != "gen"]
                np_ = plan_new_parent(ch, design, good, 600 + 10 * fno + len(block))
                if np_ is not None:
                    if not fixed and kind != "design" and ch.chance(1, 2):
                        block.append(["reset_elab"])
                        fixed = True
                    nmid, nops = np_
                    block += nops
                    block.append(["to_proto", [nmid], ch.chance(1, 2)])
        if not fixed and kind != "design":
            block.append(["reset_elab"])
        out = out[:at] + block + out[at:]
        tainted |= set(hier)
        min_at = at + len(block)
    # no late edits to modules a failed call may have left partially elaborated (contested ground)
    out = [op for op in out if op[0] != "expect_raise"]
    return out


def plan_new_parent(ch, design, good, nmid):
    cands = [m for m in good if design.target_ports(["mod", m])]
    if not cands:
        return None
    withb = [m for m in cands if any(isinstance(sh, tuple) for sh in design.target_ports(["mod", m]).values())]
    L = ch.pick(withb or cands, "npL")
    ports = design.target_ports(["mod", L])
    ops = [["module", nmid, f"NP{nmid}", "proc"], ["inst", nmid, "l1", ["mod", L], "setattr", {}], ["inst", nmid, "l2", ["mod", L], "add", {}]]
    k = 0
    for pname, sh in ports.items():
        k += 1
        style = ch.weighted([(3, "ref"), (2, "nc"), (2, "plain")], "npstyle")
        if isinstance(sh, int):
            if style == "ref":
                ops.append(["conn", nmid, "l2", pname, ["pr", "l1", pname], "setattr"])  # l1's port stays implicit
            elif style == "nc":
                ops.append(["conn", nmid, "l1", pname, ["nc", k, None], "setattr"])
                ops.append(["sig", nmid, f"w{k}", sh, "i", "n"])
                ops.append(["conn", nmid, "l2", pname, ["s", f"w{k}"], "setattr"])
            else:
                ops.append(["sig", nmid, f"w{k}", sh, "p", "n"])
                ops.append(["conn", nmid, "l1", pname, ["s", f"w{k}"], "setattr"])
                ops.append(["conn", nmid, "l2", pname, ["s", f"w{k}"], "connect"])
        else:
            if style == "ref":
                ops.append(["conn", nmid, "l2", pname, ["pr", "l1", pname], "setattr"])
            elif style == "nc":
                ops.append(["conn", nmid, "l1", pname, ["nc", k, None], "setattr"])
                ops.append(["conn", nmid, "l2", pname, ["nc", 100 + k, None], "setattr"])
            else:
                ops.append(["bun", nmid, f"wb{k}", sh[1], False, False])
                ops.append(["conn", nmid, "l1", pname, ["b", f"wb{k}"], "setattr"])
                ops.append(["conn", nmid, "l2", pname, ["b", f"wb{k}"], "call"])
    ops.append(["end", nmid])
    return nmid, ops


def plan_parent_repair(ch, prefix, design, hier, fno):
    """The failure happens in a sub-module M; afterwards the designer edits M's *parent* P in
    place: the instance of M is re-assigned to an instance of a clone of M (so P no longer
    contains the offending module) and an instance array is added to P.  P was rewritten by
    the passes that ran before the failure; a later call must refuse it or treat it exactly
    as a fresh process treats the edited design - never export it half-elaborated."""
    cands = []
    for p in hier:
        pm = design.mods[p]
        if pm.style == "gen":
            continue
        for iname, info in pm.insts.items():
            if info["kind"] != "inst" or info["target"][0] != "mod":
                continue
            m = info["target"][1]
            if design.mods[m].style == "gen":
                continue
            # the parent must be on *every* path from the top to the offender (then it is on the
            # failing path whatever the traversal order, hence refused afterwards): no other module
            # of the hierarchy instantiates the offender
            others = [q for q in hier if q != p and any(i_["target"] == ["mod", m] for i_ in design.mods[q].insts.values())]
            if others:
                continue
            # no live port reference may involve this instance, and it is wired to plain signals
            # only: re-assigning an instance name leaves the old instance's back-references on
            # bundles and references behind, and what that means is not defined anywhere
            flat = str(pm.conns)
            if f"['pr', '{iname}'" in flat:
                continue
            own = str(pm.conns[iname])
            if any(tag in own for tag in ("'pr'", "'nc'")):
                continue
            cands.append((p, iname, m))
    if not cands:
        return None
    parent, iname, offender = ch.pick(cands, "prcand")
    clone = 500 + fno
    ops = []
    for op in prefix:
        if op[0] in refmodel.DESIGN_OPS and len(op) > 1 and op[1] == offender and op[0] not in ("bundle", "ext"):
            cop = list(op)
            cop[1] = clone
            if op[0] == "module":
                cop[2] = f"{op[2]}c{fno}"
            ops.append(cop)
    conns = dict(design.mods[parent].conns[iname])
    # the old instance is disconnected port by port first (a bare re-assignment of the name would leave
    # its back-references on bundles behind, and what that means is not defined anywhere)
    for port in conns:
        ops.append(["disc", parent, iname, port])
    ops.append(["reinst", parent, iname, ["mod", clone], "setattr", conns])
    # plus new content that needs the early passes: an instance array wired to fresh signals
    xports = design.exts[0]["ports"]
    n = ch.rint(2, 3, "prn")
    aconns = {}
    for pname, w, _d in xports:
        sname = f"zr{fno}_{pname}"
        ops.append(["sig", parent, sname, w * (n if ch.chance(1, 2) else 1), "i", "n"])
        aconns[pname] = ["s", sname]
    ops.append(["arr", parent, f"zarr{fno}", ["ext", 0, {"a": 900 + fno}], n, "ctor", aconns])
    return offender, parent, ops


def plant_width_fault(ch, prefix, design, hier, fno=0):
    if not hier:
        return None
    """Make one scalar connection of one module in `hier` one bit too wide, through
    `connect` (the last connection wins).  Returns (offender, bad ops, repair ops)."""
    cands = []
    for op in prefix:
        if op[0] == "conn" and op[1] in hier and op[4][0] == "s":
            m = design.mods[op[1]]
            info = m.insts.get(op[2])
            if info is None or info["kind"] != "inst":
                continue
            if m.conns[op[2]].get(op[3]) != op[4]:
                continue  # not the live connection
            w = m.sigs[op[4][1]][0]
            cands.append((op, w))
    if not cands:
        return None
    op, w = ch.pick(cands, "plant")
    mid = op[1]
    if design.mods[mid].style == "gen":
        return None
    name = f"wrong{fno}_{len(prefix)}"
    bad = [["sig", mid, name, w + 1, "i", "n"], ["conn", mid, op[2], op[3], ["s", name], "connect"]]
    repair = [["conn", mid, op[2], op[3], op[4], "connect"]]
    return mid, bad, repair


# --------------------------------------------------------------------------------------
# execution
# --------------------------------------------------------------------------------------


def _digest(b):
    return hashlib.blake2b(b, digest_size=12).hexdigest()


def _outcome(r, verbose, monitor=True):
    if not r["ok"]:
        return {"ok": False, "exc": r["exc"]}
    out = {"ok": True}
    if "pkg" in r:
        out["digest"] = _digest(r["pkg"].SerializeToString(deterministic=True))
        if monitor:
            cv = netview.closed_violations(r["pkg"], connp.prim_ports(), check_tools=False)
            if cv:
                out["not_closed"] = cv[:3]
        if verbose:
            out["text"] = str(r["pkg"])
    elif "text" in r:
        out["digest"] = _digest(r["text"].encode())
        if verbose:
            out["text"] = r["text"]
    return out


def exec_session(scn):
    """Runs the whole script in one process; returns per-op outcomes."""
    T = template_init()
    h = T["h"]
    sched = seams.Sched(scn["sched"][0], scn["sched"][1])
    seams.set_sched(sched)
    it = interp.Interp(h)
    verbose = scn.get("verbose", False)
    outcomes = [None] * len(scn["ops"])
    io_cases = {}
    # probe: which case of io_for_checking is taken (observed from outside, no source change)
    import sys as _sys

    ct = _sys.modules.get("hdl21.elab.passes.conntypes")
    orig_io = getattr(ct, "io_for_checking", None)

    def probe_io(parent, i):
        try:
            if isinstance(i, h.Module):
                key = f"parent_flat={parent._pre_flattening_io is not None},child_flat={i._pre_flattening_io is not None}"
                io_cases[key] = io_cases.get(key, 0) + 1
        except AttributeError:  # a coverage probe only: never in the way of the call
            pass
        return orig_io(parent, i)

    if orig_io is not None:
        ct.io_for_checking = probe_io
    for k, op in enumerate(scn["ops"]):
        kind = op[0]
        if kind == "expect_raise":
            try:
                it.run(op[1])
                outcomes[k] = {"raised": False}
            except Exception as e:  # noqa
                outcomes[k] = {"raised": True, "exc": interp.norm_exc(e)}
        elif kind in interp.EXPORT_OPS:
            before = dict(it.fault_counter)
            r = it.run(op)
            outcomes[k] = _outcome(r, verbose)
            if it.fault_counter.get("raised", 0) > before.get("raised", 0):
                outcomes[k]["fault_fired"] = True
                outcomes[k]["offender"] = it.fault_counter.get("offender")
        else:
            try:
                it.run(op)
            except Exception as e:  # noqa
                outcomes[k] = {"build_exc": interp.norm_exc(e), "body_runs": _body_runs(it, op)}
                if kind not in ("end",):
                    break
            else:
                if kind == "end":
                    outcomes[k] = {"built": True, "body_runs": _body_runs(it, op)}
    ct.io_for_checking = orig_io
    return {"outcomes": outcomes, "sched": sched.stats(), "io_cases": io_cases, "fault_counter": {k: v for k, v in it.fault_counter.items() if isinstance(v, int)}}


def _body_runs(it, op):
    env = it.mods.get(op[1]) if len(op) > 1 and isinstance(op[1], int) else None
    return env.body_runs if env is not None else None


def fresh_program(ops, k):
    """The design as the script describes it just before op k, plus op k itself."""
    out = []
    for op in ops[:k]:
        if op[0] in refmodel.DESIGN_OPS:
            out.append(op)
    return out + [ops[k]]


def exec_fresh_build(arg):
    """The design statements up to and including op k, in a fresh process, no calls."""
    scn, k = arg
    T = template_init()
    seams.set_sched(seams.Sched("insertion", 0))
    it = interp.Interp(T["h"])
    for op in scn["ops"][: k + 1]:
        if op[0] in refmodel.DESIGN_OPS:
            try:
                it.run(op)
            except Exception as e:  # noqa
                return {"ok": False, "build_exc": interp.norm_exc(e)}
    return {"ok": True}


def exec_fresh(arg):
    scn, k = arg
    T = template_init()
    h = T["h"]
    seams.set_sched(seams.Sched("insertion", 0))
    it = interp.Interp(h)
    prog = fresh_program(scn["ops"], k)
    for op in prog[:-1]:
        try:
            it.run(op)
        except Exception as e:  # noqa
            return {"build_exc": interp.norm_exc(e)}
    r = it.run(prog[-1])
    return _outcome(r, scn.get("verbose", False), monitor=False)


def run(scn):
    """Executed in a pool worker (pristine): forks the session and the fresh oracles."""
    res = {"seed": scn.get("seed"), "findings": [], "probes": {}, "n_ops": len(scn["ops"]), "faults": {}}
    probes = res["probes"]

    def probe(name, n=1):
        probes[name] = probes.get(name, 0) + n

    ops = scn["ops"]
    mode = scn["mode"]
    prop = "C08" if mode == "c08" else "C07"
    sess = procs.in_child(exec_session, scn, timeout=60)
    res["sched"] = sess["sched"]
    for key, n in sess["io_cases"].items():
        probe("io_for_checking:" + key, n)
    outcomes = sess["outcomes"]
    # An edit that was expected to be refused but was accepted is part of the design from
    # then on; one that was refused is not.  `ops` below is the script with that applied.
    eff = []
    for k, op in enumerate(ops):
        if op[0] == "expect_raise" and outcomes[k] is not None and not outcomes[k]["raised"]:
            eff.append(op[1])
        else:
            eff.append(op)
    # Contested ground (not generated, DESIGN section 4): an edit that was *accepted* by a module
    # which an earlier failed call left partially elaborated.  Neither C07 (fully elaborated
    # modules refuse additions) nor C08 defines what such an edit means.
    for k, op in enumerate(ops):
        if op[0] == "expect_raise" and op[1][0] in ("conn", "repl") and outcomes[k] is not None and not outcomes[k]["raised"]:
            # a connection edit that was accepted: by a module some call had completely elaborated
            # (it refuses additions: C07), or by one that no call had finished (no statement: discard)
            plain = [o_ if o_[0] != "expect_raise" else ["gc"] for o_ in ops]
            if _fully_elaborated(plain, outcomes, k, op[1][1], None):
                res["findings"].append({"prop": "C07", "clause": "freeze", "detail": [f"a connection edit ({op[1][0]}) on an instance of elaborated module {op[1][1]} was accepted"], "at": k})
                res["nontrivial"] = True
                res["sig"] = hash64(str(scn["ops"]))
                return res
            res["discard"] = "late connection accepted by a module no call had elaborated completely (outside the model)"
            return res
        if op[0] == "expect_raise" and outcomes[k] is not None and not outcomes[k]["raised"] and not str(op[1][2]).startswith("late"):
            res["discard"] = "an edit re-using a name was accepted by a module no call had elaborated (outside the model)"
            return res
        if op[0] == "expect_raise" and outcomes[k] is not None and not outcomes[k]["raised"]:
            d0 = design_at(eff, k)
            for j in range(k):
                if ops[j][0] in interp.EXPORT_OPS and outcomes[j] is not None and not outcomes[j].get("ok") and op[1][1] in hierarchy(d0, ops[j][1]):
                    res["discard"] = "late edit accepted by a partially elaborated module (contested)"
                    probe("late_edit_on_partially_elaborated_module")
                    return res
    raw_ops, ops = ops, eff
    scn = dict(scn)
    scn["ops"] = eff
    design = refmodel.load([op for op in ops if op[0] in refmodel.DESIGN_OPS])
    fresh_cache = {}
    first_error = {}  # targets tuple -> exc of the first failure
    retry_state = {}  # call key -> (exc, (design version, installed elaborator))
    dirty_failed = {}  # call key -> design version at which a dirty (rewriting) fault fired in it
    refusable = set()  # offending modules and the modules that contained one when it failed
    offenders = set()
    installed = None  # the currently installed fault op
    planted = {}  # mid -> True while a planted design fault is live (approximation: from script)
    calls = 0
    failed_calls = 0
    touched = {}
    for k, op in enumerate(ops):
        kind = op[0]
        o = outcomes[k]
        if kind == "fault":
            installed = op
            res["faults"]["configured:" + op[1]] = res["faults"].get("configured:" + op[1], 0) + 1
            continue
        if kind == "reset_elab":
            installed = None
            continue
        if raw_ops[k][0] == "expect_raise":
            if o is None:
                continue
            mid = raw_ops[k][1][1]
            # Only a module that some call has completely elaborated must refuse additions.
            if _fully_elaborated(ops, outcomes, k, mid, design):
                probe("refused_edit_checked")
                if not o["raised"]:
                    res["findings"].append({"prop": "C07", "clause": "freeze", "detail": [f"addition to elaborated module {mid} was accepted"]})
            continue
        if kind in refmodel.DESIGN_OPS and o is not None and "build_exc" in o:
            # Writing the design failed.  If the module being written is a new one (no call has
            # touched it) and a fresh process writes the same statements without complaint, the
            # history is to blame: "an already elaborated module can still be instantiated by new parents".
            mid = op[1] if len(op) > 1 else None
            touched_before = any(ops[j][0] in interp.EXPORT_OPS and outcomes[j] is not None and mid in hierarchy(design_at(ops, j), ops[j][1]) for j in range(k))
            if mode == "c07" and mid in design_at(ops, k + 1).mods and not touched_before:
                fb = procs.in_child(exec_fresh_build, (scn, k), timeout=60)
                if fb.get("ok"):
                    res["findings"].append({"prop": "C07", "clause": "new-parent-cannot-be-written", "detail": [f"op #{k} {op[:4]} raised {o['build_exc']} while writing a new module; a fresh process executes the same statements"], "at": k})
                    res["nontrivial"] = True
                    res["sig"] = hash64(str(scn["ops"]))
                    return res
            if kind != "end":
                probe("design_statement_refused_mid_session")  # (the session ends here; earlier calls are judged)
                continue
            res["discard"] = f"build failed: {o['build_exc']}"
            probe("valid_design_rejected_at_build")
            return res
        if kind not in interp.EXPORT_OPS:
            continue
        if o is None:
            continue
        calls += 1
        for t in hierarchy(design_at(ops, k), op[1]):
            touched[t] = touched.get(t, 0) + 1
        key = (kind, tuple(op[1]), op[2] if kind == "netlist" else None)
        f = fresh_cache.get((key, _design_version(ops, k)))
        if f is None:
            f = procs.in_child(exec_fresh, (scn, k), timeout=60)
            fresh_cache[(key, _design_version(ops, k))] = f
        if "build_exc" in f:
            res["discard"] = f"fresh build failed: {f['build_exc']}"
            return res
        d_now = design_at(ops, k)
        hier = hierarchy(d_now, op[1])
        if mode == "c07":
            # the design handed to this call must be well-formed for the verdict to mean anything
            try:
                bad, _ = refmodel.judge(d_now, op[1])
            except refmodel.ModelError as e:
                bad = ("model", str(e))
            if bad:
                probe("call_on_ill_formed_design_skipped")
                continue
        contains_offender = bool(hier & (offenders | refusable))
        if o.get("not_closed"):
            res["findings"].append({"prop": "C06", "clause": "closed", "detail": o["not_closed"]})
        if o.get("fault_fired"):
            res["faults"]["raised:" + installed[1]] = res["faults"].get("raised:" + installed[1], 0) + 1 if installed else 1
            if installed and installed[1] == "boundary":
                offenders.add(installed[3])
                refusable |= {x for x in hier if installed[3] in hierarchy(d_now, [x])}
                res["faults"][f"raised:boundary:pos{installed[2]}"] = res["faults"].get(f"raised:boundary:pos{installed[2]}", 0) + 1
            else:
                # mid-pass fault: the module being rewritten is not known statically; every
                # module of this call's hierarchy may be the half-rewritten one
                offenders |= hier
                refusable |= hier
            failed_calls += 1
        # ---- verdicts
        ver_now = (_design_version(ops, k), str(installed))
        if o.get("fault_fired") and installed and installed[1] == "boundary" and installed[4] & 1:
            # a rewriting pass failed half-way through the offender: this very call can never
            # succeed again on this design, whatever elaborator is installed later
            dirty_failed[key] = _design_version(ops, k)
        if o["ok"] and dirty_failed.get(key) == _design_version(ops, k):
            res["findings"].append({"prop": "C08", "clause": "failed-call-succeeds-on-retry", "detail": [f"call #{k} {op} failed before in a pass that had half-rewritten a module of it, and now succeeds on the unchanged design"], "at": k})
        elif o["ok"] and key in retry_state and retry_state[key][1] == ver_now:
            # the very same call failed before and nothing changed since (same design, same
            # elaborator): it must report the original error again, not succeed
            res["findings"].append({"prop": "C08", "clause": "failed-call-succeeds-on-retry", "detail": [f"call #{k} {op} failed before with {retry_state[key][0]} and now succeeds although nothing changed"], "at": k})
        if o["ok"]:
            if f["ok"]:
                if o.get("digest") != f.get("digest"):
                    clause = "differs-from-fresh"
                    if mode == "c08" and contains_offender:
                        clause = "half-rewritten-export"
                    res["findings"].append({"prop": prop, "clause": clause, "detail": [f"call #{k} {op} returned a result that differs from a fresh process's", f"session digest {o.get('digest')} fresh {f.get('digest')}"], "at": k})
                else:
                    probe("call_equals_fresh")
                    if contains_offender:
                        probe("recovered_call_on_offender")
            else:
                res["findings"].append({"prop": prop if mode == "c08" else "C07", "clause": "accepted-where-fresh-rejects", "detail": [f"call #{k} {op} succeeded; a fresh process raises {f['exc']}"], "at": k})
        else:
            exc = o["exc"]
            # every module of this call that contained an offending / refusable module when the call
            # failed was on the failing path and may be refused from now on
            if contains_offender:
                bad_now = offenders | refusable
                refusable |= {x for x in hier if bad_now & hierarchy(d_now, [x])}
            if f["ok"]:
                retry_state[key] = (exc, ver_now)
            if f["ok"]:
                if mode == "c07":
                    res["findings"].append({"prop": "C07", "clause": "raises-where-fresh-succeeds", "detail": [f"call #{k} {op} raised {exc}; a fresh process succeeds"], "at": k})
                else:
                    # a failure while faults are in play
                    if interp.is_circular_msg(exc):
                        res["findings"].append({"prop": "C08", "clause": "spurious-circular", "detail": [f"call #{k} {op} reports {exc[1][:120]!r} on an acyclic design"], "at": k})
                    elif o.get("fault_fired"):
                        probe("injected_failure")
                        if key in first_error and first_error[key] != exc and not _interrupted(first_error[key], exc):
                            res["findings"].append({"prop": "C08", "clause": "different-error-on-retry", "detail": [f"call #{k} {op}: first {first_error[key]}, now {exc}"], "at": k})
                        first_error.setdefault(key, exc)
                    elif key in first_error and installed is not None:
                        # retry unchanged, cause still present: the original error again
                        if first_error[key] != exc and not _interrupted(first_error[key], exc):
                            res["findings"].append({"prop": "C08", "clause": "different-error-on-retry", "detail": [f"call #{k} {op}: first {first_error[key]}, now {exc}"], "at": k})
                        else:
                            probe("retry_same_error")
                    elif not contains_offender:
                        res["findings"].append({"prop": "C08", "clause": "poisoned-unrelated", "detail": [f"call #{k} {op} raised {exc}; it does not contain an offending module and a fresh process succeeds"], "at": k})
                    else:
                        probe("offender_still_refused")
            else:
                # both raise.  The session may report the error that first stopped a module
                # (which a fresh process cannot know) - any error but a spurious circular one.
                if interp.is_circular_msg(exc) and not interp.is_circular_msg(f["exc"]):
                    res["findings"].append({"prop": "C08", "clause": "spurious-circular", "detail": [f"call #{k} {op} reports {exc[1][:120]!r}; a fresh process reports {f['exc'][1][:120]!r}"], "at": k})
                elif exc == f["exc"]:
                    probe("same_error_as_fresh")
                else:
                    probe("original_error_of_earlier_failure")
                ver = (_design_version(ops, k), str(installed))
                if key in retry_state and retry_state[key][1] == ver and retry_state[key][0] != exc and not _interrupted(retry_state[key][0], exc):
                    res["findings"].append({"prop": "C08", "clause": "different-error-on-retry", "detail": [f"call #{k} {op}: first {retry_state[key][0]}, now {exc}, nothing changed in between"], "at": k})
                elif key in retry_state and retry_state[key][1] == ver:
                    probe("retry_same_error")
                retry_state[key] = (exc, ver)
                if not o.get("fault_fired"):
                    failed_calls += 1
                    bad_mods = _design_offenders(ops, k, hier)
                    offenders |= bad_mods
                    refusable |= {x for x in hier if bad_mods & hierarchy(d_now, [x])}
                first_error.setdefault(key, exc)
    for op in raw_ops:
        if op[0] == "reinst":
            res["faults"]["continuation:parent_edited_after_failure"] = 1
        if op[0] == "module" and isinstance(op[2], str) and op[2].startswith("NP"):
            res["faults"]["continuation:new_parent_after_failure"] = res["faults"].get("continuation:new_parent_after_failure", 0) + 1
        if op[0] == "sig" and str(op[2]).startswith("wrong"):
            res["faults"]["configured:planted_width_fault"] = res["faults"].get("configured:planted_width_fault", 0) + 1
    res["faults"]["failed_calls"] = failed_calls
    res["faults"]["sessions_with_failure"] = 1 if failed_calls else 0
    res["faults"]["sessions_fault_free"] = 0 if failed_calls else 1
    shared = sum(1 for t, n in touched.items() if n >= 2)
    res["nontrivial"] = (calls >= 2 and shared >= 1) if mode == "c07" else (failed_calls >= 1)
    callsig = [(op[0], tuple(op[1])) for op in ops if op[0] in interp.EXPORT_OPS]
    faultsig = [tuple(str(x) for x in op[1:5]) for op in ops if op[0] == "fault"]
    res["sig"] = hash64(connp.shape_sig([op for op in ops if op[0] in refmodel.DESIGN_OPS]), callsig, faultsig, sess["sched"]["trace_digest"])
    return res


def _interrupted(e1, e2):
    """One of the two errors is an interruption (BaseException) or the library's report of one: what a
    retry reports after an interruption is not pinned down - only that it raises, and not 'circular'."""
    return any(e[0] == "InjectedAbort" for e in (e1, e2))


def design_at(ops, k):
    return refmodel.load([op for op in ops[:k] if op[0] in refmodel.DESIGN_OPS])


def _design_version(ops, k):
    return sum(1 for op in ops[:k] if op[0] in refmodel.DESIGN_OPS)


def _design_offenders(ops, k, hier):
    """Modules of `hier` that the reference model calls ill-formed at op k."""
    d = design_at(ops, k)
    out = set()
    for mid in hier:
        try:
            refmodel.Local(d, mid)
        except refmodel.IllFormed:
            out.add(mid)
        except Exception:  # noqa
            out.add(mid)
    return out or set(hier)


def _fully_elaborated(ops, outcomes, k, mid, design):
    for j in range(k):
        op = ops[j]
        if op[0] in interp.EXPORT_OPS and outcomes[j] is not None and outcomes[j].get("ok"):
            if mid in hierarchy(design_at(ops, j), op[1]):
                return True
    return False


def execute(scn):  # replay / minimisation entry: same as run, but callable through in_child
    return run(scn)


def same_failure(f1, f2):
    return f1["prop"] == f2["prop"] and f1["clause"] == f2["clause"]
