"""Profile `conn`: design programs against the reference connectivity model.

Serves C01 (connectivity preserved), C04 (operation histories), C05 (adversarial names),
C02 (planted ill-formedness) and feeds the C06 monitor.  One executor, several
generators (`mode`).
"""
import copy

from sim import advnames, gen, interp, match, netview, plant, refmodel, seams, spiceview
from sim.choices import Choices, hash64
from sim.procs import template_init

_PP = None


def prim_ports():
    global _PP
    if _PP is None:
        _PP = netview.prim_ports_table()
    return _PP


# --------------------------------------------------------------------------------------
# generation
# --------------------------------------------------------------------------------------


def generate(seed, mode="c01", base_cfg=None):
    ch = Choices(seed)
    if mode == "c04":
        base_cfg = dict(base_cfg or {})
        base_cfg.update({"history": True, "portrefs": True, "noconn": True})
    if mode == "c05":
        base_cfg = dict(base_cfg or {})
        base_cfg.update({"adv_members": ch.chance(1, 2), "bundles": True, "n_bundles": ch.rint(1, 3, "c05nb"), "history": ch.chance(1, 3)})
    anon_focus = False
    if mode == "c02" and ch.chance(1, 4):
        # a share of the runs looks at anonymous-bundle connections (their sites are rare otherwise)
        anon_focus = True
        base_cfg = dict(base_cfg or {})
        base_cfg.update({"bundles": True, "anon": True, "n_bundles": ch.rint(1, 3, "c02nb")})
    cfg = gen.draw_cfg(ch, base_cfg)
    ops, mids, g = gen.gen_design(ch, cfg)
    top = mids[-1]
    adv = 0
    planted = None
    if mode == "c02":
        r = plant.plant(ch, ops, top, prefer=["width_anon_member", "extra_member", "bad_member", "pair_foreign_bundle", "superset_bundle"] if anon_focus else None)
        if r is not None:
            ops, cls, site = r
            planted = [cls, site]
    if mode == "c05":
        ops, adv = advnames.adversarial(ch, ops)
    # history prefix: sub-modules elaborated / exported earlier (dimension H)
    if ch.chance(1, 2):
        out = []
        for op in ops:
            out.append(op)
            if op[0] == "end" and op[1] != top and ch.chance(1, 2):
                out.append([ch.pick(["elaborate", "to_proto"], "hist"), [op[1]], True])
        ops = out
    if mode == "c05":
        # once a module is written, some of its members are assigned (or added) to their own names
        # again - legal, and without effect - before anything elaborates it.  (Drawn off the tape.)
        out = []
        styles = {op[1]: op[3] for op in ops if op[0] == "module"}
        for op in ops:
            out.append(op)
            if op[0] == "end" and styles.get(op[1]) != "gen" and hash64(seed, "readd", op[1]) % 2:
                names = [o_[2] for o_ in ops if o_[0] in ("sig", "inst", "arr") and o_[1] == op[1]]
                names = sorted(set(names), key=lambda n_: hash64(seed, "readdname", n_))[: 1 + hash64(seed, "readdn", op[1]) % 3]
                for n_ in names:
                    out.append(["readd", op[1], n_, "set" if hash64(seed, "readdhow", n_) % 2 else "add"])
        ops = out
    if mode == "c04" and hash64(seed, "mulkeep") % 3 == 0:
        # a connected instance is multiplied into an array and then also added in its own right:
        # both are wired per the connections made to the instance (drawn off the tape)
        ext = next((op for op in ops if op[0] == "ext"), None)
        end_at = next((i for i, op in enumerate(ops) if op[0] == "end" and op[1] == top), None)
        if ext is not None and end_at is not None:
            n_ = 2 + hash64(seed, "mulkeepn") % 2
            new, conns_ = [], {}
            for pname, w, _d in ext[3]:
                new.append(["sig", top, f"zk_{pname}", w, "i", "n"])
                conns_[pname] = ["s", f"zk_{pname}"]
            new.append(["arr", top, "zkarr", ["ext", ext[1], {"a": 77}], n_, "mul_keep", conns_])
            ops = ops[:end_at] + new + ops[end_at:]
    scn = {
        "profile": "conn",
        "mode": mode,
        "seed": seed,
        "ops": ops,
        "top": top,
        "sched": [ch.pick(seams.POLICIES, "policy"), ch.draw(1 << 30, "schedseed")],
        "junk": ch.rint(0, 3, "junk") * 97,
        "adv": adv,
        "planted": planted,
        "pkg_domain": ch.pick([None, None, None, "lib"], "pkgdomain"),  # to_proto(top, domain=...)
    }
    return scn


# --------------------------------------------------------------------------------------
# execution (inside a pristine child)
# --------------------------------------------------------------------------------------


def shape_sig(ops):
    """A hash of the program's shape (op kinds, targets, expression kinds), not of names."""

    def xs(x):
        if isinstance(x, list):
            return "(" + ",".join(xs(v) for v in x if isinstance(v, (list, dict)) or v in ("s", "sl", "sr", "cat", "pr", "nc", "b", "br", "an", "d", "m")) + ")"
        if isinstance(x, dict):
            return "{" + ",".join(xs(v) for v in x.values()) + "}"
        return ""

    parts = []
    for op in ops:
        if op[0] in ("conn", "repl"):
            parts.append(op[0] + xs(op[4]))
        elif op[0] in ("inst", "arr", "pair"):
            parts.append(op[0] + str(op[3][:2]))
        elif op[0] in ("sig",):
            parts.append("sig%d%s" % (op[3], op[4]))
        else:
            parts.append(op[0])
    return hash64(*parts)


def execute(scn):
    T = template_init()
    h = T["h"]
    ops, top = scn["ops"], scn["top"]
    res = {"seed": scn.get("seed"), "findings": [], "probes": {}, "n_ops": len(ops), "faults": {}}
    probes = res["probes"]

    def probe(name, n=1):
        probes[name] = probes.get(name, 0) + n

    replaced = None
    if scn["mode"] == "c02" and scn.get("planted") and scn["planted"][0] == "orphan_replaced":
        # the planted op re-declares a connected signal under its own name; the model knows the
        # design without it (valid by construction) and the verdict is the planter's
        seen = set()
        for i, op in enumerate(ops):
            if op[0] == "sig":
                if (op[1], op[2]) in seen:
                    replaced = i
                    break
                seen.add((op[1], op[2]))
    try:
        design = refmodel.load(ops if replaced is None else ops[:replaced] + ops[replaced + 1 :])
        bad, locs = refmodel.judge(design, [top])
        if replaced is not None and not bad:
            from sim import plant

            rop = ops[replaced]
            hier = refmodel.reachable(design, [top])
            live = [
                i
                for i in plant.live_conn_ops(ops[:replaced] + ops[replaced + 1 :], design, hier)
                if i < replaced and ops[i][0] in ("conn", "repl") and ops[i][1] == rop[1] and any(n[0] == "s" and n[1] == rop[2] for _p, n in plant._walk_paths(ops[i][4]))
            ]
            if live:
                bad, locs = ("orphan_replaced", f"signal {rop[2]} replaced under its name while connected"), []
    except refmodel.ModelError as e:
        res["discard"] = f"model: {e}"
        return res
    expect_bad = scn["mode"] == "c02"
    if expect_bad and scn.get("planted") is None:
        res["discard"] = "no site for the drawn fault class"
        probe("c02_no_site")
        return res
    if bad and not expect_bad:
        res["discard"] = f"generated program ill-formed: {bad}"
        return res
    if expect_bad and not bad:
        res["discard"] = "mutation left the design well-formed"
        probe("c02_neutral_mutation")
        return res

    sched = seams.Sched(scn["sched"][0], scn["sched"][1])
    seams.set_sched(sched)
    it = interp.Interp(h)
    if scn.get("junk"):
        it.op_junk(scn["junk"])
    build_exc = None
    hist_calls = 0
    stepd = refmodel.Design() if scn["mode"] == "c04" else None
    for op in ops:
        try:
            r = it.run(op)
        except Exception as e:  # noqa
            build_exc = interp.norm_exc(e)
            break
        if stepd is not None and op[0] in refmodel.DESIGN_OPS:
            stepd.apply(op)
            if op[0] in ("conn", "repl", "disc"):
                bad_step = _live_invariant(it, stepd, op)
                if bad_step:
                    res["findings"].append({"prop": "C04", "clause": "live-conns", "detail": [bad_step]})
                    stepd = None
                else:
                    probe("live_invariant_checks")
        if op[0] in interp.EXPORT_OPS:
            hist_calls += 1
            if not r["ok"] and not expect_bad:
                probe("history_call_failed")
    res["sched"] = sched.stats()
    if hist_calls:
        probe("runs_with_history_prefix")

    if expect_bad:
        return _finish_c02(scn, res, it, top, bad, build_exc, probe, sched)

    if build_exc is not None:
        probe("valid_design_rejected_at_build")
        res["rejected"] = build_exc
        res["nontrivial"] = False
        return res
    # before the export, sometimes: an elaboration that fails *elsewhere* (an unnamed sibling top,
    # which stops the last pass) after every other pass has been through `top`.  `top` is not the
    # offending module: an ill-forming edit on it is refused or the export raises (C02, C06), and
    # without an accepted edit the export below still describes the circuit (C01, C08).
    if scn["mode"] == "c01" and hash64(scn.get("seed"), "partial") % 4 == 0 and it.mods[top].module is not None:
        try:
            h.elaborate([h.Module(), it.mods[top].module])
            probe("partial_prefix_did_not_fail")
        except Exception:  # noqa
            probe("partial_elaboration_prefix")
            if hash64(scn.get("seed"), "partialedit") % 2 == 0 and _edit_then_export(scn, res, it, design, top, probe, "partial"):
                res["nontrivial"] = True
                res["sig"] = hash64(shape_sig(ops), sched.trace_digest, scn["sched"][0])
                res["sched"] = sched.stats()
                return res
    r = it.run(["to_proto", [top], True] + ([scn["pkg_domain"]] if scn.get("pkg_domain") else []))
    res["sched"] = sched.stats()
    if not r["ok"]:
        probe("valid_design_rejected_at_export")
        probe("reject:" + r["exc"][0] + ":" + r["exc"][1][:40])
        res["rejected"] = r["exc"]
        res["nontrivial"] = False
        if scn["mode"] == "c04":
            # is it the history? build the final mapping only (same declarations, every port
            # connected once) and export that
            fin = final_only(ops, design)
            it2 = interp.Interp(h)
            try:
                for op in fin:
                    it2.run(op)
                r2 = it2.run(["to_proto", [top], True])
            except Exception:  # noqa
                r2 = {"ok": False}
            if r2["ok"]:
                res["findings"].append({"prop": "C04", "clause": "history-rejected", "detail": [f"the final mapping alone exports, but after the operation history export raises {r['exc']}"]})
                del res["rejected"]
        return res
    pkg = r["pkg"]
    model = refmodel.flatten(design, top, locs)
    _feature_probes(ops, probe)
    if scn.get("adv"):
        probe("adversarial_renamings", scn["adv"])
        probe("adversarial_programs_exported")
    # C06 monitor on every package
    cv = netview.closed_violations(pkg, prim_ports())
    if cv:
        res["findings"].append({"prop": "C06", "clause": "closed", "detail": cv[:4]})
    # C01 / C04 / C05: partition equality between model and package reading
    prop = {"c01": "C01", "c04": "C04", "c05": "C05"}.get(scn["mode"], "C01")
    if not cv:
        topname = pkg.modules[-1].name
        try:
            pf = netview.flatten_pkg(pkg, topname, prim_ports())
            ok, diffs = match.compare(model, pf, design, top)
        except netview.PkgError as e:
            ok, diffs = False, [f"package unreadable: {e}"]
        if ok is None:
            probe("inconclusive_naming")
        elif not ok:
            res["findings"].append({"prop": prop, "clause": "partition:" + diffs[0].split(":")[0], "detail": diffs[:4]})
        # second, independent reading: the SPICE netlist text
        if ok and netview.netlistable(pkg):
            nl = it.run(["netlist", [top], "spice", True])
            if not nl["ok"]:
                probe("netlist_rejected_after_export")
                res["findings"].append({"prop": "C06", "clause": "netlister", "detail": [str(nl["exc"])[:300]]})
            else:
                try:
                    sf = spiceview.flatten_spice(nl["text"], pkg, topname, prim_ports())
                    ok2, diffs2 = match.compare(model, sf, design, top)
                except spiceview.SpiceError as e:
                    ok2, diffs2 = None, [str(e)]
                    probe("spice_unreadable")
                if ok2 is False:
                    res["findings"].append({"prop": prop, "clause": "spice-partition:" + diffs2[0].split(":")[0], "detail": diffs2[:4]})
                elif ok2:
                    probe("spice_reading_agrees")
    # after the export: a connection edit on an instance of the (now elaborated) top is either
    # refused, or the package exported next is still closed (C06: *every* returned package)
    if scn["mode"] == "c01" and not res["findings"] and hash64(scn.get("seed"), "late") % 3 == 0:
        _edit_then_export(scn, res, it, design, top, probe, "late")
    res["nontrivial"] = len(model["leaves"]) >= 1
    if scn["mode"] == "c05":
        res["nontrivial"] = res["nontrivial"] and scn.get("adv", 0) > 0
    if scn["mode"] == "c04":
        res["nontrivial"] = res["nontrivial"] and any(op[0] in ("repl", "disc") for op in ops)
    res["sig"] = hash64(shape_sig(ops), sched.trace_digest, scn["sched"][0])
    res["leaves"] = len(model["leaves"])
    return res


def _edit_then_export(scn, res, it, design, top, probe, when):
    """An ill-forming connection edit on an instance of `top` (a port that does not exist, or a
    signal of another width), then an export.  The edit is refused, or the export raises, or -
    findings - a package comes back for the ill-formed design.  Returns True if the edit was accepted."""
    env = it.mods[top]
    insts = sorted(n for n, info in design.mods[top].insts.items() if info["kind"] == "inst" and n in env.objs)
    sigs = sorted(n for n in design.mods[top].sigs if n in env.objs)
    if not (insts and sigs and env.module is not None):
        return False
    live = env.module.instances.get(insts[hash64(scn.get("seed"), "li") % len(insts)])
    try:
        if live is None:
            raise LookupError
        if hash64(scn.get("seed"), "lateform") % 2 and live.conns:
            # replace() of an existing connection by a signal of another width
            pn = sorted(live.conns)[0]
            have_w = getattr(live.conns[pn], "width", None)
            other = [env.objs[n_] for n_ in sigs if isinstance(have_w, int) and design.mods[top].sigs[n_][0] != have_w]
            if not other:
                raise LookupError
            live.replace(pn, other[0])
        else:
            live.connect("nosuchport_z", env.objs[sigs[0]])
    except Exception:  # noqa
        probe(f"{when}_connection_refused")
        return False
    probe(f"{when}_connection_accepted")
    r3 = it.run(["to_proto", [top], True])
    if r3["ok"]:
        cv = netview.closed_violations(r3["pkg"], prim_ports(), check_tools=False)
        if cv:
            # the edit made the design ill-formed (a connection to a port that does not exist,
            # or of another width) and a package was returned for it all the same
            what = "after elaboration" if when == "late" else "after an elaboration that failed elsewhere had been through the module"
            res["findings"].append({"prop": "C02", "clause": f"accepted:{when}_edit", "detail": [f"a connection edit made {what} left the design ill-formed, and to_proto returned a package for it"] + cv[:2]})
            res["findings"].append({"prop": "C06", "clause": "closed", "detail": cv[:3] + ["(package exported after a connection was made on an instance of the module)"]})
    else:
        probe(f"{when}_edit_export_raised")
    return True


def final_only(ops, design):
    """The program that performs only the final connections of `ops` (module names get a suffix so
    that the two builds can live in one process)."""
    out = []
    for op in ops:
        k = op[0]
        if k in ("conn", "repl", "disc") or k in interp.EXPORT_OPS:
            continue
        if k == "module":
            op = [op[0], op[1], (op[2] + "_final") if op[2] else op[2], op[3]]
        if k in ("inst", "arr", "pair"):
            op = list(op)
            ci = 5 if k == "inst" else (6 if k == "arr" else 4)
            op[ci] = {}
        if k == "end":
            m = design.mods[op[1]]
            for iname, conns in m.conns.items():
                for port, x in conns.items():
                    out.append(["conn", op[1], iname, port, x, "connect"])
        out.append(op)
    return out


def _live_invariant(it, stepd, op):
    """After a connection operation: the instance's `conns` has exactly the model's keys,
    and plain signal / bundle connections are the very objects the model names."""
    mid, iname = op[1], op[2]
    env = it.mods[mid]
    if env.style == "gen" and not env.ended:
        return None  # ops are buffered until the generator body runs
    inst = env.objs.get(iname)
    if inst is None:
        return None
    want = stepd.mods[mid].conns[iname]
    have = inst.conns
    if set(have.keys()) != set(want.keys()):
        return f"after {op[:4]}: conns keys {sorted(have.keys())} != model {sorted(want.keys())}"
    for port, x in want.items():
        if x[0] in ("s", "b") and have[port] is not env.objs.get(x[1]):
            return f"after {op[:4]}: conns[{port}] is not the object {x[1]}"
    return None


def _feature_probes(ops, probe):
    kinds = set()

    def walk(x):
        if isinstance(x, list) and x:
            if isinstance(x[0], str):
                kinds.add(x[0])
            for v in x:
                walk(v)
        elif isinstance(x, dict):
            for v in x.values():
                walk(v)

    for op in ops:
        if op[0] == "repl":
            probe("replace_ops")
        if op[0] in ("conn", "repl"):
            walk(op[4])
            if op[4][0] in ("sl", "sr") and op[4][1][0] in ("sl", "sr", "cat"):
                probe("nested_slice")
            if op[4][0] == "cat":
                probe("concat_conn")
        elif op[0] == "disc":
            probe("disconnect_ops")
        elif op[0] == "arr":
            probe("arrays")
        elif op[0] == "pair":
            probe("pairs")
    for k, name in (("pr", "portref_conn"), ("nc", "noconn"), ("an", "anon_bundle"), ("d", "dict_bundle"), ("br", "bundle_ref"), ("b", "bundle_conn")):
        if k in kinds:
            probe(name)


def _finish_c02(scn, res, it, top, bad, build_exc, probe, sched):
    cls = bad[0]
    probe("c02_class:" + cls)
    probe("c02_planted:" + scn["planted"][0] + "@" + scn["planted"][1])
    if hist_prefix_probe(scn["ops"]):
        probe("c02_with_history_prefix")
    res["nontrivial"] = True
    res["sig"] = hash64(shape_sig(scn["ops"]), cls, scn.get("site", ""))
    if build_exc is not None:
        probe("c02_rejected_at_build")
        return res
    outcomes = {}
    if hash64(scn.get("seed"), "listcall") % 3 == 0:
        # the ill-formed design is exported in a list, next to a module that an earlier call has
        # already elaborated: no package either
        for hop in (["module", 990, "Helper990", "proc"], ["sig", 990, "hp", 1, "p", "n"], ["end", 990]):
            it.run(hop)
        it.run(["to_proto", [990], True])
        order = [990, top] if hash64(scn.get("seed"), "listorder") % 2 else [top, 990]
        r = it.run(["to_proto", order, False])
        probe("c02_exported_in_list_with_elaborated_module")
        if r["ok"]:
            cv = netview.closed_violations(r["pkg"], prim_ports(), check_tools=False)
            if cv:
                res["findings"].append({"prop": "C06", "clause": "closed", "detail": cv[:4] + [f"(exported in a list with an already elaborated module, from a design with a planted fault: {bad})"]})
            res["findings"].append({"prop": "C02", "clause": "accepted:" + cls, "detail": [f"ill-formed design ({cls}: {bad[1]}) was exported when given in a list with an already elaborated module"]})
            res["sched"] = sched.stats()
            return res
    # elaborate must raise for every class detectable without exporting
    for call in (["to_proto", [top], True], ["netlist", [top], "spice", True], ["elaborate", [top], True]):
        r = it.run(call)
        outcomes[call[0]] = r["ok"]
        if call[0] == "to_proto" and r["ok"]:
            # a package was returned for an ill-formed design: is it at least closed? (C06)
            cv = netview.closed_violations(r["pkg"], prim_ports(), check_tools=False)
            if cv:
                res["findings"].append({"prop": "C06", "clause": "closed", "detail": cv[:4] + [f"(exported from a design with a planted fault: {bad})"]})
    res["sched"] = sched.stats()
    if outcomes["to_proto"] or outcomes["netlist"]:
        res["findings"].append(
            {"prop": "C02", "clause": "accepted:" + cls, "detail": [f"ill-formed design ({cls}: {bad[1]}) was exported: to_proto ok={outcomes['to_proto']} netlist ok={outcomes['netlist']}"]}
        )
    else:
        probe("c02_rejected")
    return res


def hist_prefix_probe(ops):
    return any(op[0] in interp.EXPORT_OPS for op in ops)


def same_failure(f1, f2):
    return f1["prop"] == f2["prop"] and f1["clause"].split(":")[0] == f2["clause"].split(":")[0]
