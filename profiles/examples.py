"""Profile `examples` (C06): sessions over the repository's example designs and built-in
generators under drawn histories; the closedness monitor runs on every package.

The designs are real code from /repo/examples and hdl21/generators.py; the scheduler
decides which are built, with which parameters, in which order and grouping they are
exported, and how often (generator caches and per-pass done-sets make that a history).
"""
from sim import interp, netview, seams
from sim.choices import Choices, hash64
from sim.procs import template_init
from profiles import conn as connp

CATALOG = ["ro", "rotb", "rladder", "mux_tree", "encoder", "diff_ota", "idac", "bundles", "series_r", "series_x", "mosstack", "wrapper_prim", "wrapper_mod", "cmdm", "balun"]


def generate(seed, mode="c06", opts=None):
    ch = Choices(seed)
    n = ch.rint(2, 6, "ncalls")
    items = []
    for _ in range(n):
        kind = ch.pick(CATALOG, "kind")
        p = {
            "a": ch.rint(1, 5, "pa"),
            "b": ch.rint(1, 4, "pb"),
            "c": ch.rint(0, 3, "pc"),
        }
        items.append([kind, p])
    # export plan: groups of item indices, possibly repeated
    plan = []
    for _ in range(ch.rint(1, 4, "nexports")):
        k = ch.rint(1, min(3, n), "gsize")
        grp = []
        for _ in range(k):
            i = ch.draw(n, "gi")
            if i not in grp:
                grp.append(i)
        plan.append([ch.pick(["to_proto", "to_proto", "elaborate"], "pkind"), grp])
    plan.append(["to_proto", list(range(n))])
    return {"profile": "examples", "mode": mode, "seed": seed, "ops": [["item"] + it for it in items] + [["export"] + p for p in plan], "sched": [ch.pick(seams.POLICIES, "policy"), ch.draw(1 << 30, "ss")]}


def build(kind, p):
    import sys

    import os

    repo = os.environ.get("VERIF_REPO", "/repo")
    if repo not in sys.path:
        sys.path.insert(0, repo)
    import hdl21 as h
    from hdl21.prefix import µ, n as nano
    from hdl21.generators import Series, MosStack, Wrapper, CmDmGen, Balun, AcDc

    a, b, c = p["a"], p["b"], p["c"]
    if kind == "ro":
        from examples import ro

        return ro.Ro(stages=2 * a - 1, rows=b)
    if kind == "rotb":
        from examples import ro

        return ro.RoTb(h.Default)
    if kind == "rladder":
        from examples import rdac

        return rdac.rladder(nseg=a + 1, res=rdac.PdkResistor(w=b * µ, l=10 * µ))
    if kind == "mux_tree":
        from examples import rdac

        mp = rdac.PassGateParams(nmos=rdac.Nch(rdac.PdkMosParams(l=b * nano)), pmos=(rdac.Pch(rdac.PdkMosParams(l=1 * nano)) if c else None))
        return rdac.mux_tree(nbit=min(a, 4), mux_params=mp)
    if kind == "encoder":
        from examples import encoder

        return encoder.OneHotEncoder(width=2 * a)
    if kind == "diff_ota":
        from examples import diff_ota

        return diff_ota.DiffOta()
    if kind == "idac":
        from examples import idac

        return idac.NmosIdac(mnsw=idac.n(nfin=4, nf=b, m=1, stack=1), mnbi=idac.n(nfin=4, nf=1, m=2, stack=12), width=a, pdk=idac.PdkEnum.FAKEFET)
    if kind == "bundles":
        from examples import bundles

        return bundles.TestSystem
    if kind == "series_r":
        return Series(unit=h.R(r=1000 * b), conns=("p", "n"), nser=a)
    if kind == "series_x":
        X = _ext(h)
        conns = [("a", "b"), ("b", "a"), ("a", "c"), ("c", "b")][c]
        return Series(unit=X(), conns=conns, nser=a)
    if kind == "mosstack":
        return MosStack(nser=a)
    if kind == "wrapper_prim":
        return Wrapper([h.Mos(), h.R(r=1), h.Vcvs(gain=2), h.Diode()][c])
    if kind == "wrapper_mod":
        from examples import bundles

        return Wrapper([bundles.Chip, bundles.SpiFlash, bundles.Board, bundles.Tester][c])
    if kind == "cmdm":
        return CmDmGen(cm=AcDc(ac=a * h.prefix.m, dc=b * h.prefix.m), dm=AcDc(ac=c * h.prefix.m, dc=1 * h.prefix.m))
    if kind == "balun":
        return Balun()
    raise ValueError(kind)


_EXT = {}


def _ext(h):
    if "x" not in _EXT:
        _EXT["x"] = h.ExternalModule(name="SerUnit", port_list=[h.Port(name="a"), h.Port(name="b"), h.Port(name="c"), h.Port(name="d", width=2)], domain="verif")
    return _EXT["x"]


def execute(scn):
    T = template_init()
    h = T["h"]
    sched = seams.Sched(scn["sched"][0], scn["sched"][1])
    seams.set_sched(sched)
    res = {"seed": scn.get("seed"), "findings": [], "probes": {}, "n_ops": len(scn["ops"]), "faults": {}}
    probes = res["probes"]

    def probe(name, n=1):
        probes[name] = probes.get(name, 0) + n

    mods = []
    exported = 0
    for op in scn["ops"]:
        if op[0] == "item":
            try:
                m = build(op[1], op[2])
                mods.append(m)
                probe("built:" + op[1])
            except Exception as e:  # noqa
                mods.append(None)
                probe("catalog_build_failed:" + op[1])
        else:
            kind, grp = op[1], op[2]
            targets = []
            for i in grp:
                if mods[i] is not None and mods[i] not in targets:
                    targets.append(mods[i])
            if not targets:
                continue
            if len({id(t) for t in targets}) != len(targets):
                continue
            try:
                if kind == "elaborate":
                    h.elaborate(targets)
                    continue
                pkg = h.to_proto(targets)
            except Exception as e:  # noqa
                probe("export_refused:" + interp.norm_exc(e)[1][:60])
                continue
            exported += 1
            cv = netview.closed_violations(pkg, connp.prim_ports())
            if cv:
                res["findings"].append({"prop": "C06", "clause": "closed", "detail": cv[:4] + [f"targets: {[t.name for t in targets]}"]})
            else:
                probe("packages_closed")
    res["sched"] = sched.stats()
    res["nontrivial"] = exported >= 1
    res["sig"] = hash64(str(scn["ops"]))
    return res


def same_failure(f1, f2):
    return f1["prop"] == f2["prop"] and f1["clause"] == f2["clause"]
