"""Profile `order` (C12): the same design program exported under different schedules.

Layer 1 (deciding): R pristine children build and export the same program; they differ
only in the scheduler's set-iteration keys (SimSet policy + key stream), the amount of
junk allocation and an unrelated elaboration done first.  Serialized package bytes and
netlist text (spice, spectre, verilog) must be identical.
Layer 2 (`layer2_run`): real interpreters with different PYTHONHASHSEED values and
allocation histories, builtin sets untouched.
"""
import hashlib
import json
import os
import subprocess
import sys

from sim import gen, interp, procs, refmodel, seams
from sim.choices import Choices, hash64
from sim.procs import template_init
from profiles import conn as connp

FMTS = ("spice", "spectre", "verilog")

UNRELATED = [
    ["ext", 900, "XU", [["a", 2, "n"], ["b", 1, "n"]]],
    ["bundle", 900, "BU", [["x", 1, "s"], ["y", 2, "s"]], []],
    ["module", 900, "UnrelatedInner", "proc"],
    ["sig", 900, "p", 2, "p", "n"],
    ["bun", 900, "bb", 900, True, False],
    ["inst", 900, "x", ["ext", 900, {"a": 1}], "setattr", {"a": ["s", "p"], "b": ["br", "bb", "x"]}],
    ["end", 900],
    ["module", 901, "UnrelatedOuter", "proc"],
    ["sig", 901, "s", 2, "i", "n"],
    ["bun", 901, "tb", 900, False, False],
    ["inst", 901, "i0", ["mod", 900], "setattr", {"p": ["s", "s"], "bb": ["b", "tb"]}],
    ["inst", 901, "i1", ["mod", 900], "setattr", {"p": ["pr", "i0", "p"], "bb": ["b", "tb"]}],
    ["sig", 901, "ax", 1, "i", "n"],
    ["sig", 901, "ay", 2, "i", "n"],
    ["inst", 901, "i2", ["mod", 900], "setattr", {"p": ["s", "s"], "bb": ["an", 1, {"x": ["s", "ax"], "y": ["s", "ay"]}]}],
    ["inst", 901, "i3", ["mod", 900], "setattr", {"p": ["s", "s"], "bb": ["d", {"x": ["s", "ax"], "y": ["sl", ["s", "ay"], 0]}]}],
] + [
    ["inst", 901, f"j{k}", ["mod", 900], "setattr", {"p": ["s", "s"], "bb": ["d", {"x": ["s", "ax"], "y": ["s", "ay"]}]}] for k in range(10)
] + [
    ["end", 901],
    # a generated module that happens to be called like the first module of many designs, with the same
    # parameters (another generator function of the same name): names must not be handed out process-wide
    ["module", 0, "M0", "gen"],
    ["sig", 0, "p1", 1, "p", "n"],
    ["end", 0],
    ["module", 1, "M1", "gen"],
    ["sig", 1, "p1", 2, "p", "n"],
    ["end", 1],
]


def generate(seed, mode="c12", opts=None):
    ch = Choices(seed)
    base = {"portrefs": True, "bundles": True, "physical": False, "fan": ch.rint(1, 2, "fan"), "submods": 3}
    if ch.chance(1, 2):
        base["n_bundles"] = ch.rint(1, 3, "nb")
        base["n_mods"] = ch.rint(2, 5, "nm")
        base["max_insts"] = ch.rint(3, 6, "mi")
    cfg = gen.draw_cfg(ch, base)
    ops, mids, g = gen.gen_design(ch, cfg)
    R = ch.rint(4, 6, "R")
    variants = [["insertion", 0, 0, False]]
    for r in range(1, R):
        variants.append([ch.pick(seams.POLICIES[1:], "vpolicy"), ch.draw(1 << 30, "vseed"), ch.rint(0, 4, "vjunk") * 211, ch.chance(1, 3)])
    return {"profile": "order", "mode": mode, "seed": seed, "ops": ops, "top": mids[-1], "variants": variants}


def _d(b):
    return hashlib.blake2b(b, digest_size=12).hexdigest()


def build_and_export(h, ops, top, verbose=False, prior_equal=False):
    it = interp.Interp(h)
    it.prior_equal = prior_equal
    for op in ops:
        it.run(op)
    out = {}
    r = it.run(["to_proto", [top], True])
    if not r["ok"]:
        return {"proto": ["exc"] + r["exc"]}, None
    pkg = r["pkg"]
    b = pkg.SerializeToString(deterministic=True)
    out["proto"] = _d(b)
    texts = {"proto": str(pkg)}
    import io

    for fmt in FMTS:
        try:
            dest = io.StringIO()
            h.netlist(pkg, dest=dest, fmt=fmt)
            out[fmt] = _d(dest.getvalue().encode())
            texts[fmt] = dest.getvalue()
        except Exception as e:  # noqa
            out[fmt] = ["exc"] + interp.norm_exc(e)
    return out, (texts if verbose else None)


def exec_variant(arg):
    scn, v = arg
    T = template_init()
    h = T["h"]
    policy, vseed, junk, unrelated = scn["variants"][v]
    sched = seams.Sched(policy, vseed)
    seams.set_sched(sched)
    keep = []
    if junk:
        keep.append([object() for _ in range(junk)])
    if unrelated:
        # unrelated earlier work, done 1-6 times (each with its own objects, then dropped)
        for rep in range(1 + (junk // 211) % 6):
            it0 = interp.Interp(h)
            for op in UNRELATED:
                it0.run(op)
            it0.run(["to_proto", [901], True])
            if rep == 0:
                keep.append(it0)
            del it0
    try:
        out, texts = build_and_export(h, scn["ops"], scn["top"], verbose=scn.get("verbose", False), prior_equal=bool(unrelated))
    except Exception as e:  # noqa
        return {"build_exc": interp.norm_exc(e), "sched": sched.stats()}
    return {"out": out, "texts": texts, "sched": sched.stats()}


def run(scn):
    res = {"seed": scn.get("seed"), "findings": [], "probes": {}, "n_ops": len(scn["ops"]), "faults": {}}
    probes = res["probes"]
    design = refmodel.load(scn["ops"])
    try:
        bad, _ = refmodel.judge(design, [scn["top"]])
    except refmodel.ModelError as e:
        bad = ("model", str(e))
    if bad:
        res["discard"] = f"ill-formed: {bad}"
        return res
    outs = []
    for v in range(len(scn["variants"])):
        outs.append(procs.in_child(exec_variant, (scn, v), timeout=60))
    if any("build_exc" in o for o in outs):
        res["discard"] = "build failed"
        probes["valid_design_rejected_at_build"] = 1
        return res
    ref = outs[0]["out"]
    # what the library returned, variant by variant (for the self-test: two executions of one
    # scenario that differ *here* are the library's doing, not the harness')
    res["lib_out"] = hash64(json.dumps([o["out"] for o in outs], sort_keys=True, default=str))
    if isinstance(ref.get("proto"), list):
        res["discard"] = "export failed"
        probes["valid_design_rejected_at_export"] = 1
        return res
    cps = 0
    nonid = 0
    merged = {"policy": "multi", "choice_points": 0, "nonidentity": 0, "by_site": {}, "by_size": {}, "trace_digest": 0}
    traces = set()
    for v, o in enumerate(outs):
        s = o["sched"]
        merged["choice_points"] += s["choice_points"]
        merged["nonidentity"] += s["nonidentity"]
        for k, n in s["by_site"].items():
            merged["by_site"][k] = merged["by_site"].get(k, 0) + n
        for k, n in s["by_size"].items():
            merged["by_size"][k] = merged["by_size"].get(k, 0) + n
        traces.add(s["trace_digest"])
        if v == 0:
            continue
        for key in ("proto",) + FMTS:
            if o["out"].get(key) != ref.get(key):
                what = "bytes-differ" if key == "proto" else f"netlist-differs:{key}"
                res["findings"].append(
                    {
                        "prop": "C12",
                        "clause": what,
                        "detail": [f"variant 0 {scn['variants'][0]} vs variant {v} {scn['variants'][v]}: {key} {ref.get(key)} != {o['out'].get(key)}"],
                        "variants": [0, v],
                    }
                )
                break
    merged["trace_digest"] = hash64(*sorted(traces))
    res["sched"] = merged
    probes["distinct_schedules"] = len(traces)
    if len(traces) >= 2:
        probes["programs_with_2+_distinct_schedules"] = 1
    for fmt in FMTS:
        if isinstance(ref.get(fmt), list):
            probes[f"{fmt}_rejected"] = 1
        else:
            probes[f"{fmt}_compared"] = 1
    res["nontrivial"] = len(traces) >= 2
    res["sig"] = hash64(connp.shape_sig(scn["ops"]), merged["trace_digest"])
    return res


def execute(scn):
    return run(scn)


def same_failure(f1, f2):
    return f1["prop"] == f2["prop"] and f1["clause"].split(":")[0] == f2["clause"].split(":")[0]


# --------------------------------------------------------------------------------------
# Layer 2: real interpreters
# --------------------------------------------------------------------------------------

LAYER2_SCRIPT = r"""
import sys, json, hashlib, os
sys.path.insert(0, os.environ.get("VERIF_ROOT", "/verif"))
sys.path.insert(0, os.environ.get("VERIF_REPO", "/repo"))
junk_n = int(sys.argv[2])
junk = [object() for _ in range(junk_n)]
import hdl21 as h
from profiles import order
from sim import interp
seeds = json.loads(sys.argv[1])
out = {}
if junk_n % 2:
    it0 = interp.Interp(h)
    for op in order.UNRELATED: it0.run(op)
    it0.run(["to_proto", [901], True])
    # ... and unrelated work with a very long number (a float converted digit by digit)
    from decimal import Decimal as _D
    _u = h.Module(name="UnrelatedLong")
    _u.a, _u.b = h.Signal(), h.Signal()
    _u.r = h.R(r=h.Prefixed(number=_D(1e-6)))(p=_u.a, n=_u.b)
    _u.m = h.Mos(w=_D(1e-6), l=_D(0.1) * h.prefix.µ)(d=_u.a, g=_u.a, s=_u.b, b=_u.b)
    h.to_proto(_u)
for s in seeds:
    scn = order.generate(s)
    try:
        o, _ = order.build_and_export(h, scn["ops"], scn["top"])
    except Exception as e:
        o = {"build_exc": interp.norm_exc(e)}
    out[str(s)] = o
# a generator whose parameter is a set of strings: its module name must not depend on the hash seed
from typing import FrozenSet
_SP = h.paramclass(type("SetP", (), {"tags": h.Param(dtype=FrozenSet[str], desc="tags"), "k": h.Param(dtype=int, desc="k", default=0)}))
def _setgen(p):
    m = h.Module()
    m.p = h.Port()
    return m
_setgen.__name__ = "SetGen"
_setgen.__annotations__ = {"p": _SP, "return": h.Module}
_SetGen = h.generator(_setgen)
try:
    out["setparam"] = {"proto": [_SetGen(tags=frozenset(["alpha", "beta", "gamma", "delta", "eps"]), k=i).name for i in range(3)]}
except Exception as e:
    out["setparam"] = {"proto": ["exc:" + type(e).__name__]}
# ... and a set of sets of strings
_SP2 = h.paramclass(type("SetP2", (), {"groups": h.Param(dtype=FrozenSet[FrozenSet[str]], desc="groups")}))
def _setgen2(p):
    m = h.Module()
    m.p = h.Port()
    return m
_setgen2.__name__ = "SetGen2"
_setgen2.__annotations__ = {"p": _SP2, "return": h.Module}
_SetGen2 = h.generator(_setgen2)
try:
    # (interleaved on purpose: which element a set's repr starts with decides how the sets compare)
    _groups = frozenset([frozenset(["a1", "m5", "z9"]), frozenset(["b2", "n6", "y8"]), frozenset(["c3", "x7"]), frozenset(["d4", "k1", "w6", "e0"])])
    out["setparam"]["proto"].append(_SetGen2(groups=_groups).name)
except Exception as e:
    out["setparam"]["proto"].append("exc2:" + type(e).__name__)
# hdl21.flatten.flatten of a three-level hierarchy with many internal nets
def _ladder():
    from hdl21.flatten import flatten
    Cell = h.Module(name="Cell")
    Cell.a, Cell.b, Cell.g = h.Port(), h.Port(), h.Port()
    Cell.mid, Cell.tap, Cell.q = h.Signal(), h.Signal(), h.Signal()
    Cell.r1 = h.R(r=1)(p=Cell.a, n=Cell.mid)
    Cell.r2 = h.R(r=2)(p=Cell.mid, n=Cell.tap)
    Cell.r3 = h.R(r=3)(p=Cell.tap, n=Cell.q)
    Cell.r4 = h.R(r=(10 * h.prefix.K) / 7)(p=Cell.q, n=Cell.b)  # a value computed by the program (inexact division)
    Cell.c1 = h.C(c=1)(p=Cell.mid, n=Cell.g)
    Cell.c2 = h.C(c=1)(p=Cell.tap, n=Cell.g)
    Row = h.Module(name="Row")
    Row.i, Row.o, Row.g = h.Port(), h.Port(), h.Port()
    Row.n1, Row.n2, Row.zeta, Row.alpha = h.Signal(), h.Signal(), h.Signal(), h.Signal()
    Row.c0 = Cell(a=Row.i, b=Row.n1, g=Row.g)
    Row.c1 = Cell(a=Row.n1, b=Row.n2, g=Row.g)
    Row.c2 = Cell(a=Row.n2, b=Row.zeta, g=Row.g)
    Row.c3 = Cell(a=Row.zeta, b=Row.alpha, g=Row.g)
    Row.c4 = Cell(a=Row.alpha, b=Row.o, g=Row.g)
    Top = h.Module(name="Ladder")
    Top.inp, Top.out, Top.gnd = h.Port(), h.Port(), h.Port()
    Top.x, Top.y = h.Signal(), h.Signal()
    Top.r0 = Row(i=Top.inp, o=Top.x, g=Top.gnd)
    Top.r1 = Row(i=Top.x, o=Top.y, g=Top.gnd)
    Top.r2 = Row(i=Top.y, o=Top.out, g=Top.gnd)
    f = flatten(Top)
    pkg = h.to_proto(f)
    return hashlib.blake2b(pkg.SerializeToString(deterministic=True), digest_size=10).hexdigest()
try:
    out["flatten"] = {"proto": _ladder()}
except Exception as e:
    out["flatten"] = {"proto": "exc:" + type(e).__name__}
# the repository's examples and built-in generators (Series, MosStack, ...), exported one by one
from profiles import examples
import io
for s in seeds[: max(10, len(seeds) // 3)]:
    escn = examples.generate(s)
    digs = []
    for op in escn["ops"]:
        if op[0] != "item":
            continue
        try:
            m = examples.build(op[1], op[2])
            pkg = h.to_proto(m)
            d = hashlib.blake2b(pkg.SerializeToString(deterministic=True), digest_size=10).hexdigest()
            if op[1] in ("series_x", "series_r", "rladder", "bundles", "cmdm", "balun"):
                dest = io.StringIO()
                try:
                    h.netlist(pkg, dest=dest, fmt="spectre")
                    d += ":" + hashlib.blake2b(dest.getvalue().encode(), digest_size=6).hexdigest()
                except Exception as e:
                    d += ":exc"
            try:  # and flattened, where hdl21.flatten supports the design
                from hdl21.flatten import flatten
                fp = h.to_proto(flatten(m))
                d += ":" + hashlib.blake2b(fp.SerializeToString(deterministic=True), digest_size=6).hexdigest()
            except Exception as e:
                d += ":flat-exc-" + type(e).__name__
            digs.append([op[1], d])
        except Exception as e:
            digs.append([op[1], "exc:" + type(e).__name__])
    out["ex" + str(s)] = {"proto": digs}
print("RESULT" + json.dumps(out))
"""


def layer2_run(seeds, hash_seeds, verif_seed=0, timeout=600):
    """Run the same programs in real interpreters (builtin sets, real hashing) with different
    PYTHONHASHSEED values and allocation histories.  Returns (results per interpreter, findings)."""
    procs_ = []
    from sim import runner

    env_base = {"PATH": "/usr/bin:/bin", "HOME": "/tmp", "PYTHONDONTWRITEBYTECODE": "1", "VERIF_ROOT": runner.ROOT, "VERIF_REPO": os.environ.get("VERIF_REPO", "/repo")}
    for i, hs in enumerate(hash_seeds):
        env = dict(env_base)
        env["PYTHONHASHSEED"] = str(hs)
        junk = (hash64(verif_seed, "junk", i) % 5000) * 3 + (i % 2)
        p = subprocess.Popen(
            ["/venv/bin/python", "-c", LAYER2_SCRIPT, json.dumps(seeds), str(junk)],
            env=env,
            cwd="/",
            stdout=subprocess.PIPE,
            stderr=subprocess.PIPE,
            text=True,
        )
        procs_.append((hs, junk, p))
    results = []
    for hs, junk, p in procs_:
        try:
            so, se = p.communicate(timeout=timeout)
        except subprocess.TimeoutExpired:
            p.kill()
            raise procs.ChildFailure(f"layer-2 interpreter (hash seed {hs}) timed out")
        line = [l for l in so.split("\n") if l.startswith("RESULT")]
        if not line:
            raise procs.ChildFailure(f"layer-2 interpreter (hash seed {hs}) failed: {se[-1500:]}")
        results.append((hs, junk, json.loads(line[0][6:])))
    findings = []
    ref_hs, ref_junk, ref = results[0]
    keys = list(seeds) + ["ex" + str(s) for s in seeds] + ["setparam", "flatten"]
    for hs, junk, r in results[1:]:
        for s in keys:
            if r.get(str(s)) != ref.get(str(s)):
                findings.append(
                    {
                        "prop": "C12",
                        "clause": "layer2-differs",
                        "seed": s,
                        "detail": [f"program seed {s}: PYTHONHASHSEED={ref_hs} junk={ref_junk} gives {ref.get(str(s))}; PYTHONHASHSEED={hs} junk={junk} gives {r.get(str(s))}"],
                        "config": [[ref_hs, ref_junk], [hs, junk]],
                    }
                )
    return results, findings
