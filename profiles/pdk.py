"""Profile `pdk` (C15): sessions over the PDK registry, the per-PDK device-call caches and
in-place compilation of shared hierarchies.

The template process imports the four PDK packages and then *empties the registry*, so
registration (order, default) is a scheduled operation of the session.
"""
import io

from sim import interp, netview, procs, seams
from sim.choices import Choices, hash64
from sim.procs import template_init

PDKS = ["sample", "sky130", "gf180", "asap7"]
# "descriptive error": one that a `raise` statement reports with a message, as opposed to an
# exception that escaped from an operation which happened to fail (interp.deliberate)


def pdk_module(name):
    import sys

    if name == "sample":
        return sys.modules["hdl21.pdk.sample_pdk.pdk"]
    if name == "sky130":
        return sys.modules["sky130_hdl21.pdk_logic"]
    if name == "gf180":
        return sys.modules["gf180_hdl21.pdk_logic"]
    return sys.modules["asap7_hdl21.pdk"]


def pdk_package(name):
    """The package a user imports (it re-exports the registered module's content), if there is one."""
    import sys

    pm = pdk_module(name)
    pkg = sys.modules.get(pm.__name__.rsplit(".", 1)[0])
    if pkg is not None and pkg is not pm and getattr(pkg, "compile", None) is pm.compile:
        return pkg
    return None


def tables(name):
    """{class: {key: ExternalModule}} of a PDK's device tables (read-only introspection), or {} when
    the PDK package no longer has tables of these names (the check then leaves that PDK alone)."""
    try:
        return _tables(name)
    except (AttributeError, KeyError, TypeError):
        return {}


def _tables(name):
    m = pdk_module(name)
    if name in ("sky130", "gf180"):
        return {"mos": dict(m.xtors), "res": dict(m.ress), "cap": dict(m.caps), "diode": dict(m.diodes), "bjt": dict(m.bjts)}
    if name == "sample":
        import hdl21 as h

        return {"mos": {("nmos", h.MosType.NMOS): m.Nmos, ("pmos", h.MosType.PMOS): m.Pmos}}
    return {"mos": {k: v for k, v in m._mos_modules.items()}}


def pdk_ext_modules(name):
    import hdl21 as h

    m = pdk_module(name)
    out = []
    for t in tables(name).values():
        out += list(t.values())
    for v in vars(m).values():
        if isinstance(v, h.ExternalModule):
            out.append(v)
    return out


GENERIC_PORTS = {"mos": ["d", "g", "s", "b"], "res2": ["p", "n"], "res3": ["p", "n", "b"], "cap2": ["p", "n"], "cap3": ["p", "n", "b"], "diode": ["p", "n"], "bjt": ["c", "b", "e"]}


def generate(seed, mode="c15", opts=None):
    template_init(with_pdks=True)
    import hdl21 as h

    ch = Choices(seed)
    target = ch.pick(PDKS, "pdk")
    tb = tables(target)
    if not tb.get("mos"):
        # this PDK's tables are not where they were: take the next one that can be read
        target = next((p_ for p_ in PDKS if tables(p_).get("mos")), None)
        if target is None:
            raise RuntimeError("no PDK device table can be read")
        tb = tables(target)
    n_mods = ch.rint(1, 3, "nmods")
    mods = []
    for mid in range(n_mods):
        insts = []
        for k in range(ch.rint(1, 4, "ninst")):
            r = draw_request(ch, target, tb, h)
            insts.append(r)
            if r[0] in ("mos", "res", "cap", "diode", "bjt") and not r[1].get("bogus") and ch.chance(1, 2):
                # the same device again, with one size changed (caches must tell them apart)
                r2 = [r[0], dict(r[1]), r[2]]
                f = ch.pick(["w", "l", "mult", "nf"] if r[0] == "mos" else ["w", "l", "mult"], "resize")
                r2[1][f] = {None: (2 if f != "l" else 3)}.get(r[1].get(f), None if ch.chance(1, 2) else 5)
                insts.append(r2)
        subs = []
        if mid > 0:
            for _ in range(ch.rint(0, 2, "nsubs")):
                subs.append(ch.draw(mid, "sub"))
        mods.append({"insts": insts, "subs": subs})
    # the top module reaches every module (compilation walks from the top)
    used = {s_ for m_ in mods for s_ in m_["subs"]}
    for mid in range(n_mods - 1):
        if mid not in used:
            mods[-1]["subs"].append(mid)
    # session
    reg = ch.shuffle(PDKS, "regorder")[: ch.rint(1, 4, "nreg")]
    if target not in reg:
        reg.append(target)
        reg = ch.shuffle(reg, "regorder2")
    ops = [["register", p] for p in reg]
    via = ch.pick(["default", "name", "module", "direct"], "via")
    if via == "default" and len(reg) > 1:
        ops.append(["set_default", target, ch.pick(["module", "name"], "sd")])
    if via in ("name", "module") and len(reg) > 1 and ch.chance(1, 2):
        # another PDK is the explicit default: a target given by name or module still wins
        ops.append(["set_default", ch.pick([p_ for p_ in reg if p_ != target], "otherdef"), ch.pick(["module", "name"], "sd2")])
    late = [p_ for p_ in PDKS if p_ not in reg]
    if late and ch.chance(1, 2):
        # a further PDK is registered only now (a late import), after the default was chosen
        ops.append(["register", ch.pick(late, "late")])
    pre = ch.weighted([(3, None), (1, "elaborate"), (1, "to_proto")], "pre")
    if pre:
        ops.append([pre])
    ncompile = ch.rint(1, 3, "ncompile")
    for c in range(ncompile):
        ops.append(["compile", target, via if c == 0 else ch.pick(["default", "name", "module", "direct"], "via2"), ch.pick(["top", "list", "leaf_first"], "what")])
        if ch.chance(1, 2):
            ops.append(["export"])
    if ch.chance(1, 6):
        other = ch.pick([p for p in PDKS if p != target], "other")
        if other not in reg:
            ops.insert(0, ["register", other])
        ops.append(["compile", other, "module", "top"])
    ops.append(["export"])
    ops.append(["netlist", "spice"])
    ops.append(["netlist", "spectre"])
    twin = ch.chance(1, 4)  # a second design with the same module names, compiled in the same call
    return {"profile": "pdk", "mode": mode, "seed": seed, "target": target, "mods": mods, "twin": twin, "ops": ops, "sched": [ch.pick(seams.POLICIES, "policy"), 0]}


def port_mismatch_keys(tb):
    """Table entries whose device has a port no generic primitive has (known finding C15:
    the 4-terminal NPNs and the 5-terminal isolated 20 V Nmos).  Excluded from the random
    search; replayed from committed files by the check."""
    generic = {"mos": ["b", "d", "g", "s"], "diode": ["n", "p"], "bjt": ["b", "c", "e"]}
    out = set()
    for cls, t in tb.items():
        for k, mod in t.items():
            ports = sorted(p.name for p in mod.port_list)
            ok = ports == generic[cls] if cls in generic else ports in (["n", "p"], ["b", "n", "p"])
            if not ok:
                out.add((cls, k))
    return out


def draw_request(ch, target, tb, h, allow_known=False):
    if not allow_known:
        bad = port_mismatch_keys(tb)
        tb = {cls: {k: v for k, v in t.items() if (cls, k) not in bad} for cls, t in tb.items()}
    kinds = [(5, "mos")]
    for k in ("res", "cap", "diode", "bjt"):
        if k in tb:
            kinds.append((2, k))
    kinds += [(2, "ideal"), (1, "ext"), (1, "pdkdev")]
    kind = ch.weighted(kinds, "rkind")
    share = ch.rint(0, 2, "share")  # how nets are shared between ports
    if kind == "mos":
        keys = list(tb["mos"].keys())
        key = ch.pick(keys, "moskey")
        path = ch.pick(["type", "type", "model"], "mpath") if target in ("sky130", "gf180") else "type"
        req = {"path": path, "key": _keystr(key)}
        if ch.chance(1, 8) and target != "sample":
            req["bogus"] = True  # a request no device satisfies (the sample PDK maps every Mos)
        req["w"] = ch.pick([None, None, 1, 3], "w")
        req["l"] = ch.pick([None, None, 1, 2], "l")
        req["nf"] = ch.pick([None, 2], "nf")
        req["mult"] = ch.pick([None, 3], "mult")
        return ["mos", req, share]
    if kind in ("res", "cap", "diode", "bjt"):
        key = ch.pick(list(tb[kind].keys()), "key")
        req = {"key": key, "w": ch.pick([None, 2], "w"), "l": ch.pick([None, 3], "l"), "mult": ch.pick([None, 2], "mult")}
        if ch.chance(1, 8):
            req["bogus"] = True
            req["bogus_form"] = ch.rint(0, 4, "bogusform")
        return [kind, req, share]
    return [kind, {}, share]


def _keystr(key):
    return [k if isinstance(k, str) else f"{type(k).__name__}.{k.name}" for k in key]


def _find_key(tb, keystr):
    for k in tb:
        if _keystr(k) == keystr:
            return k
    return None


def build_request(h, target, tb, r, nports_of):
    """Returns (PrimitiveCall-like target, expectation dict)."""
    kind, req, _share = r
    if kind == "mos":
        key = _find_key(tb["mos"], req["key"])
        enums = [k for k in key if not isinstance(k, str)]
        kw = {}
        for e in enums:
            if isinstance(e, h.MosType):
                kw["tp"] = e
            elif isinstance(e, h.MosVth):
                kw["vth"] = e
            elif isinstance(e, h.MosFamily):
                kw["family"] = e
        expect = {"kind": "mos", "table": "mos"}
        if req["path"] == "model":
            kw = {"model": key[0], "tp": kw.get("tp", h.MosType.NMOS)}
            expect["model"] = key[0]
        else:
            if target in ("sky130", "gf180") and "family" not in kw:
                kw["family"] = h.MosFamily.CORE
            expect["enums"] = list(kw.values())
        if req.get("bogus"):
            if req["path"] == "model":
                kw["model"] = "NO_SUCH_MODEL"
            else:
                kw["vth"] = h.MosVth.ULTRA_HIGH
                kw["family"] = h.MosFamily.RF
            expect["bogus"] = True
        for f in ("w", "l"):
            if req.get(f) is not None:
                kw[f] = req[f] * h.prefix.µ
        for f in ("nf", "mult"):
            if req.get(f) is not None:
                kw[f] = req[f]
        expect["given"] = {f: req.get(f) for f in ("w", "l", "nf", "mult")}
        return h.Mos(**kw), expect
    if kind in ("res", "cap", "diode", "bjt"):
        mod = tb[kind][req["key"]]
        nports = len(mod.port_list)
        model = req["key"]
        if req.get("bogus"):
            # no such device: an unrelated name, or a truncated / partial spelling of a real one
            bog = [req["key"][: max(1, len(req["key"]) // 2)], req["key"][:-1], req["key"].split("_")[0], "", "NO_SUCH_MODEL"]
            bog = [b_ for b_ in bog if b_ not in tb[kind]]
            model = bog[req.get("bogus_form", 0) % len(bog)]
        expect = {"kind": kind, "table": kind, "model": req["key"], "bogus": bool(req.get("bogus")), "given_wl": {"w": req.get("w"), "l": req.get("l")}}
        kw = {"model": model}
        if kind == "res":
            prim = h.primitives.ThreeTerminalResistor if nports == 3 else h.primitives.PhysicalResistor
        elif kind == "cap":
            prim = h.primitives.ThreeTerminalCapacitor if nports == 3 else h.primitives.PhysicalCapacitor
        elif kind == "diode":
            prim = h.primitives.Diode
        else:
            prim = h.primitives.Bipolar
        fields = prim.Params.__params__
        if "w" in fields and req.get("w") is not None:
            kw["w"] = req["w"] * h.prefix.µ
        if "l" in fields and req.get("l") is not None:
            kw["l"] = req["l"] * h.prefix.µ
        if "mult" in fields and req.get("mult") is not None:
            kw["mult"] = str(req["mult"]) if kind == "cap" else req["mult"]
        if kind in ("res", "cap"):
            # what was actually asked for (fields the primitive has), for the given-values check
            expect["given"] = {f: (req.get(f) if f in kw else None) for f in ("w", "l", "mult")}
        return prim(**kw), expect
    if kind == "ideal":
        return h.R(r=1000), {"kind": "untouched"}
    if kind == "ext":
        return _ext(h)(), {"kind": "untouched"}
    # an already PDK-specific device
    m = pdk_module("sample")
    return m.Nmos(), {"kind": "untouched"}


_EXT = {}


def _ext(h):
    if "x" not in _EXT:
        _EXT["x"] = h.ExternalModule(name="UserCell", port_list=[h.Port(name="a"), h.Port(name="b")], domain="verif")
    return _EXT["x"]


def build_design(h, scn, tb, twin=False):
    mods, expects = [], {}
    for mid, spec in enumerate(scn["mods"]):
        if twin and mid < len(scn["mods"]) - 1:
            # the twin shares the leaf definitions' *names* but not the objects
            pass
        m = h.Module(name=f"PM{mid}")
        m.vss = h.Port()
        nsig = 0
        for k, r in enumerate(spec["insts"]):
            of, exp = build_request(h, scn["target"], tb, r, None)
            inst = m.add(h.Instance(of=of), name=f"d{k}")
            share = r[2]
            shared = None
            for pname in of.ports:
                if share == 2 and shared is not None:
                    sig = shared
                elif share == 1 and pname in ("b", "n", "e"):
                    sig = m.vss
                else:
                    nsig += 1
                    sig = m.add(h.Signal(name=f"n{nsig}"))
                    shared = sig
                inst.connect(pname, sig)
            expects[(mid, f"d{k}")] = exp
        for j, sub in enumerate(spec["subs"]):
            m.add(mods[sub](vss=m.vss), name=f"s{j}")
        mods.append(m)
    return mods, expects


def snapshot(mods):
    snap = {}
    for mid, m in enumerate(mods):
        for iname, inst in m.instances.items():
            snap[(mid, iname)] = (inst.of, tuple((p, id(c)) for p, c in inst.conns.items()))
        snap[(mid, "__names__")] = tuple(m.instances.keys())
        snap[(mid, "__signals__")] = tuple(m.signals.keys()) + tuple(m.ports.keys())
    return snap


def run(scn):
    """The session in a child of this (pristine) process; then, in further children of it, the
    requests picked for the history check, each compiled alone."""
    res = procs.in_child(_session, scn, timeout=60)
    queries = res.pop("alone_queries", [])
    for q in queries:
        if res["findings"]:
            break
        try:
            alone = procs.in_child(exec_alone, (scn, q["r"]), timeout=60)
        except procs.ChildFailure:
            alone = {}
        name = "alone_compile_failed"
        if alone.get("dev") is not None:
            name = "same_as_alone_in_fresh_process"
            if alone != q["here"]:
                res["findings"].append({"prop": "C15", "clause": "size-depends-on-history", "detail": [f"PM{q['mid']}.{q['iname']}: request {q['r'][:2]} gives {q['here']['dev']} {q['here']['params'][:200]} in this design, and {alone['dev']} {alone['params'][:200]} when it is the only device a fresh process compiles"]})
                continue
        res["probes"][name] = res["probes"].get(name, 0) + 1
    return res


def execute(scn):  # replay / minimisation entry: same as run, but callable through in_child
    return run(scn)


def _session(scn):
    T = template_init(with_pdks=True)
    h = T["h"]
    seams.set_sched(seams.Sched(scn["sched"][0], scn["sched"][1]))
    res = {"seed": scn.get("seed"), "findings": [], "probes": {}, "n_ops": len(scn["ops"]), "faults": {}}
    probes = res["probes"]

    def probe(name, n=1):
        probes[name] = probes.get(name, 0) + n

    def fail(clause, detail):
        res["findings"].append({"prop": "C15", "clause": clause, "detail": [detail]})

    target = scn["target"]
    tb = tables(target)
    try:
        mods, expects = build_design(h, scn, tb)
        if scn.get("twin"):
            tmods, texpects = build_design(h, scn, tb, twin=True)
    except Exception as e:  # noqa
        res["discard"] = f"design build failed: {interp.norm_exc(e)}"
        return res
    top = mods[-1]
    scn = dict(scn, _alone_budget=5, _alone=[])
    groups = [(mods, expects)] + ([(tmods, texpects)] if scn.get("twin") else [])
    bogus = any(e.get("bogus") for e in expects.values())
    from hdl21.pdk import pdk as P

    compiled_with = None
    compiled_ok = False
    default_set = {}  # which PDK the session explicitly made the default
    session_registered = set()
    # if the registry could not be emptied at start-up, every PDK has been registered by its import
    n_registered = lambda: len(session_registered) if T.get("pdk_registry_reset", True) else len(PDKS)  # noqa
    for op in scn["ops"]:
        if res["findings"]:
            break
        k = op[0]
        try:
            if k == "register":
                h.pdk.register(pdk_module(op[1]))
                session_registered.add(op[1])
                probe("registered:" + op[1])
            elif k == "set_default":
                h.pdk.set_default(pdk_module(op[1]) if op[2] == "module" else pdk_module(op[1]).__name__)
                default_set.clear()
                default_set[op[1]] = True
            elif k in ("elaborate", "to_proto"):
                getattr(h, k)(top)
            elif k == "compile":
                pname, via, what = op[1], op[2], op[3]
                pm = pdk_module(pname)
                src = top if what == "top" else (list(mods) if what == "list" else [mods[0], top] if len(mods) > 1 else top)
                if scn.get("twin"):
                    src = (src if isinstance(src, list) else [src]) + [tmods[-1]]
                if isinstance(src, list):
                    seen, s2 = set(), []
                    for m_ in src:
                        if id(m_) not in seen:
                            seen.add(id(m_))
                            s2.append(m_)
                    src = s2
                before = [snapshot(g_[0]) for g_ in groups]
                try:
                    if via == "default":
                        if n_registered() > 1 and not default_set.get(pname):
                            h.pdk.set_default(pm)
                            default_set.clear()
                            default_set[pname] = True
                        h.pdk.compile(src)
                    elif via == "name":
                        h.pdk.compile(src, pdk=pm.__name__)
                    elif via == "module":
                        # the PDK as its user holds it: the registered module, or the package that re-exports it
                        pkg = pdk_package(pname) if hash64(scn.get("seed"), "viapkg", len(res["probes"])) % 2 else None
                        h.pdk.compile(src, pdk=pkg or pm)
                        if pkg is not None:
                            probe("compiled_by_package")
                    else:
                        pm.compile(src)
                except Exception as e:  # noqa
                    exc = interp.norm_exc(e)
                    if bogus and pname == target and compiled_with is None:
                        if not interp.deliberate(e) or not exc[1].strip():
                            fail("undescriptive-error", f"unsatisfiable request raised {exc[0]}: {exc[1][:100]!r} (not reported by a raise statement, or without a message)")
                        else:
                            probe("unsatisfiable_request_refused")
                        res["nontrivial"] = True
                        res["sig"] = hash64(str(scn["mods"]), str(scn["ops"]))
                        return res
                    if pname == target and compiled_with is None and interp.deliberate(e) and exc[1].strip() and _ambiguous(h, target, expects):
                        probe("ambiguous_request_refused")
                        res["nontrivial"] = True
                        res["sig"] = hash64(str(scn["mods"]), str(scn["ops"]))
                        return res
                    fail("compile-raised", f"{op}: {exc[0]}: {exc[1][:200]}")
                    break
                probe(f"compiled:{pname}:{via}")
                after = [snapshot(g_[0]) for g_ in groups]
                if bogus and pname == target and compiled_with is None:
                    fail("unsatisfiable-accepted", f"a request no device satisfies was compiled: {[e for e in expects.values() if e.get('bogus')]}")
                    break
                for gi, (gm, ge) in enumerate(groups):
                    if res["findings"]:
                        break
                    check_compile(h, scn, gm, ge, before[gi], after[gi], pname if compiled_with is None else compiled_with, compiled_with is not None, fail, probe)
                    if gi == 1:
                        probe("twin_design_checked")
                if compiled_with is None:
                    compiled_with = pname
                compiled_ok = True
            elif k == "export":
                pkg = h.to_proto(top)
                cv = netview.closed_violations(pkg, netview.prim_ports_table(), check_tools=False)
                if cv and compiled_ok:
                    fail("compiled-design-not-closed", "; ".join(cv[:3]))
                elif compiled_ok:
                    probe("compiled_package_closed")
            elif k == "netlist":
                if compiled_ok and not _has_generic(mods):
                    dest = io.StringIO()
                    h.netlist(top, dest=dest, fmt=op[1])
                    probe("netlisted:" + op[1])
        except Exception as e:  # noqa
            exc = interp.norm_exc(e)
            fail(f"{k}-raised", f"{op}: {exc[0]}: {exc[1][:200]}")
            break
    res["nontrivial"] = compiled_ok
    res["sig"] = hash64(str(scn["mods"]), str(scn["ops"]))
    res["sched"] = seams.get_sched().stats()
    res["alone_queries"] = scn["_alone"]
    return res


def _ambiguous(h, target, expects):
    """Some type-path request matches several table entries: a PDK may refuse it."""
    tb = tables(target)
    for exp in expects.values():
        if exp.get("kind") == "mos" and "enums" in exp:
            n = sum(1 for k_ in tb["mos"] if all(e in k_ for e in exp["enums"]))
            if n >= 2:
                return True
    return False


def _has_generic(mods):
    import hdl21 as h

    for m in mods:
        for inst in m.instances.values():
            if isinstance(inst.of, h.primitives.PrimitiveCall) and inst.of.prim.primtype == h.primitives.PrimitiveType.PHYSICAL:
                return True
    return False


def check_compile(h, scn, mods, expects, before, after, pdkname, repeat, fail, probe):
    tb = tables(pdkname)
    devs = pdk_ext_modules(pdkname)
    by_params = {}
    for mid, m in enumerate(mods):
        if before[(mid, "__names__")] != after[(mid, "__names__")]:
            fail("instances-changed", f"module PM{mid}: instance names {before[(mid, '__names__')]} -> {after[(mid, '__names__')]}")
            return
        if before[(mid, "__signals__")] != after[(mid, "__signals__")]:
            fail("signals-changed", f"module PM{mid}: signals changed by compilation")
            return
        for iname, inst in m.instances.items():
            old_of, old_conns = before[(mid, iname)]
            new_of, new_conns = after[(mid, iname)]
            if old_conns != new_conns:
                fail("connections-changed", f"PM{mid}.{iname}: connections changed by compilation")
                return
            exp = expects.get((mid, iname))
            if exp is None:
                if isinstance(new_of, h.Module) and new_of is not old_of:
                    fail("hierarchy-changed", f"PM{mid}.{iname}: sub-module target replaced")
                    return
                continue
            if exp["kind"] == "untouched":
                if new_of is not old_of:
                    fail("untouched-changed", f"PM{mid}.{iname}: a non-mapped instance had its target replaced")
                    return
                continue
            if repeat:
                if new_of is not old_of:
                    fail("second-compile-changed", f"PM{mid}.{iname}: compiling again replaced the device call")
                    return
                probe("second_compile_noop")
                continue
            if not isinstance(new_of, h.ExternalModuleCall):
                fail("not-mapped", f"PM{mid}.{iname}: {exp['kind']} primitive was not replaced by a device of {pdkname}")
                return
            if not any(new_of.module is d for d in devs):
                fail("foreign-device", f"PM{mid}.{iname}: mapped to {new_of.module.name}, not a device of {pdkname}")
                return
            # selection: re-derived from the table by an independent selector
            table = tb[exp["table"]]
            if "model" in exp:
                okmods = [v for k_, v in table.items() if (k_ == exp["model"] or (isinstance(k_, tuple) and exp["model"] in k_))]
            else:
                okmods = [v for k_, v in table.items() if all(e in k_ for e in exp["enums"])]
            if not any(new_of.module is d for d in okmods):
                fail("wrong-device", f"PM{mid}.{iname}: request {exp} mapped to {new_of.module.name}")
                return
            probe("selection_checked:" + exp["kind"])
            # ports: the device's ports are exactly the connected ones
            # "netlists in spice and spectre format": a device name must be a plain identifier there
            # (a dot is the hierarchy separator of both formats)
            import re as _re

            if not _re.match(r"^[A-Za-z_][A-Za-z0-9_$]*$", new_of.module.name or ""):
                fail("device-name-not-netlistable", f"PM{mid}.{iname}: device name {new_of.module.name!r} is not an identifier a spice / spectre netlist can carry")
            dports = [p.name for p in new_of.module.port_list]
            if sorted(dports) != sorted(inst.conns.keys()):
                fail("device-ports-mismatch", f"PM{mid}.{iname}: device {new_of.module.name} has ports {dports}, instance connects {sorted(inst.conns.keys())}")
                return
            # sizes: given values are used
            given = exp.get("given", {})
            if exp["kind"] in ("mos", "res", "cap") and given:
                _check_sizes(h, new_of, given, mid, iname, fail, probe)
            _check_defaults(h, pdkname, new_of, exp, mid, iname, fail, probe)
            # ... and "the PDK's defaults" are the same whatever was compiled before: the request, alone
            # in a fresh process, gives the very same device call (checked for a few requests per run)
            k_ = int(iname[1:])
            if mods is not None and scn.get("_alone_budget", 0) > 0 and k_ < len(scn["mods"][mid]["insts"]):
                r = scn["mods"][mid]["insts"][k_]
                # (spent where history could matter: another device of the kind gives a size this one leaves out)
                others = [r2 for m2, sp in enumerate(scn["mods"]) for k2, r2 in enumerate(sp["insts"]) if (m2, k2) != (mid, k_) and r2[0] == r[0]]
                if any(r[1].get(f) is None and r2[1].get(f) is not None for r2 in others for f in ("w", "l", "mult", "nf")):
                    scn["_alone_budget"] -= 1
                    scn["_alone"].append({"mid": mid, "iname": iname, "r": r, "here": {"dev": new_of.module.name, "params": _prepr(new_of.params)}})
            # equal primitive parameters -> the same device call
            key = (type(old_of.params).__name__, old_of.params)
            try:
                if key in by_params and by_params[key] is not new_of:
                    fail("equal-params-different-calls", f"PM{mid}.{iname}: equal primitive parameters {old_of.params} gave two different device calls")
                    return
                if key in by_params:
                    probe("equal_params_same_call")
                by_params[key] = new_of
            except TypeError:
                pass


def _prepr(p):
    return repr(sorted(p.items())) if isinstance(p, dict) else repr(p)


def exec_alone(arg):
    """In a fresh child: the one request, compiled on its own."""
    scn, r = arg
    T = template_init(with_pdks=True)
    h = T["h"]
    scn1 = dict(scn, mods=[{"insts": [r], "subs": []}], twin=False)
    try:
        mods, _ = build_design(h, scn1, tables(scn["target"]))
        pdk_module(scn["target"]).compile(mods[0])
        of = mods[0].instances["d0"].of
        return {"dev": of.module.name, "params": _prepr(of.params)}
    except Exception as e:  # noqa
        return {"exc": interp.norm_exc(e)}


def _check_sizes(h, call, given, mid, iname, fail, probe):
    """Sizes and multipliers given on the generic primitive reach the device."""
    p = call.params
    get = (lambda n: p.get(n)) if isinstance(p, dict) else (lambda n: getattr(p, n, None))
    for field, names, scale in (("w", ("w", "r_width", "c_width"), True), ("l", ("l", "r_length", "c_length"), True), ("nf", ("nf",), False), ("mult", ("mult", "m", "mf", "vm"), False)):
        want = given.get(field)
        if want is None:
            continue
        haves = [get(n) for n in names if get(n) is not None]
        if not haves:
            continue  # the device has no such parameter
        target = want * h.prefix.µ if scale else want
        if not any(_same_value(h, have, target) for have in haves):
            fail("given-size-ignored", f"PM{mid}.{iname}: {field}={want}{'u' if scale else ''} requested, device has {field}={haves}")
            return
        probe("given_value_used:" + field)


def _check_defaults(h, pdkname, call, exp, mid, iname, fail, probe):
    """A size the request leaves out is the PDK's default for the selected device (read from the
    PDK's own default-size table, independently of the walker)."""
    if pdkname not in ("sky130", "gf180"):
        return
    m = pdk_module(pdkname)
    tables_ = {"mos": ["default_xtor_size"], "res": ["default_gen_res_size", "default_res_size"], "cap": ["default_cap_sizes"], "diode": ["default_diode_size"]}
    given = exp.get("given") or exp.get("given_wl") or {}
    p = call.params
    get = (lambda n: p.get(n)) if isinstance(p, dict) else (lambda n: getattr(p, n, None))
    for tname in tables_.get(exp["kind"], []):
        table = getattr(m, tname, None)
        if not table or call.module.name not in table:
            continue
        dw, dl = table[call.module.name][0], table[call.module.name][1]
        for field, names, dflt in (("w", ("w", "r_width", "c_width"), dw), ("l", ("l", "r_length", "c_length"), dl)):
            if given.get(field) is not None:
                continue
            haves = [get(n) for n in names if get(n) is not None]
            if not haves:
                continue
            if not any(_same_value(h, hv, dflt) for hv in haves):
                fail("default-size-wrong", f"PM{mid}.{iname}: {field} not given, device {call.module.name} got {field}={haves}, the PDK default is {dflt}")
                return
            probe("default_size_checked:" + exp["kind"])


def _same_value(h, a, b):
    try:
        return float(a) == float(b)
    except Exception:  # noqa
        return a == b


def same_failure(f1, f2):
    return f1["prop"] == f2["prop"] and f1["clause"] == f2["clause"]
