"""Profile `gen` (C09): generator call histories against a dict model.

Model = dict (generator id, parameter instance under Python ==) -> first call index.
(a) equal parameters -> the identical Module, body ran once
(b) unequal parameters -> distinct Modules with distinct exported names; a design
    instantiating both exports
(c) a module's name, once observed, never changes for the rest of the run
(d) names equal those obtained in a pristine child that makes the same calls in another
    order after junk allocation (and, in the thorough tier, in a real interpreter under
    another hash seed)
(e) after a raising body the next call runs the body again and returns a module
"""
import enum

from sim import interp, netview, procs, seams
from sim.choices import Choices, hash64
from sim.procs import template_init

STR_POOL = ["x", "y", "x b=y", "z", "y b=z", "", " ", "=", "a=1", "None", "1", "x" * 70, "x" * 130, "q r", "b=", "0.5", "é", "a'b", 'a"b', "x\ty"]
INT_POOL = [0, -1, -2, 1, 2, 10, 2**40]  # (-1 and -2: unequal, but CPython hashes them alike)
FLOAT_POOL = [0.0, 1.0, 0.5, 1e-9, 0.1 + 0.2, 0.3, 1e22, -0.0]


def generate(seed, mode="c09", opts=None):
    ch = Choices(seed)
    ngen = ch.rint(1, 4, "ngen")
    gens = []
    for g in range(ngen):
        shape = ch.pick(["P1", "P2", "P3", "P4", "P0", "P5", "P6"], "shape")
        cached = [j for j in range(g) if gens[j]["cache"]]  # only caching generators are called by others
        body = ch.weighted([(5, "build"), (3 if cached else 0, "call"), (2 if cached else 0, "pass"), (2, "raise_n")], "body")
        callee = ch.pick(cached, "callee") if cached and body in ("call", "pass") else None
        gens.append({"shape": shape, "body": body, "callee": callee, "n_fail": ch.rint(1, 2, "nfail") if body == "raise_n" else 0, "abort": body == "raise_n" and ch.chance(1, 3), "cache": not (body == "call" and ch.chance(1, 3))})
    ncalls = ch.rint(4, 20, "ncalls")
    ops = []
    for _ in range(ncalls):
        g = ch.draw(ngen, "g")
        shape = gens[g]["shape"]
        spec = draw_params(ch, shape)
        if gens[g]["body"] in ("pass", "call") and ch.chance(1, 3):
            # the callee called directly with the very parameters the outer generator derives
            ops.append(["call_inner_of", g, spec, "inst"])
        ops.append(["call", g, spec, ch.pick(["kw", "inst"], "form")])
        if shape == "P1" and ch.chance(1, 6):
            # the same values in an instance of a *re-created* parameter class (same name, same fields,
            # as after a module reload): refused, or else the very same memoised call
            ops.append(["call", g, spec, "twin"])
        if gens[g]["body"] in ("pass", "call") and ch.chance(1, 3):
            ops.append(["call_inner_of", g, spec, "inst"])
        if ch.chance(1, 8):
            ops.append(["junk", ch.rint(1, 40, "junk") * 17])
        if ch.chance(1, 6) and len(ops) > 2:
            calls = [i for i, o in enumerate(ops) if o[0] == "call"]
            ops.append(["export_pair", ch.pick(calls, "e1"), ch.pick(calls, "e2")])
    if ch.chance(1, 4):
        # two generators that call each other with the same parameters: a genuine circular
        # dependency, refused - and without consequences for any other call
        for _ in range(ch.rint(1, 2, "ncyc")):
            ops.insert(ch.draw(len(ops) + 1, "cycat"), ["call_cycle", {"a": ch.pick(INT_POOL[:2], "cyca"), "b": "x"}])
        if ch.chance(1, 2):
            ops.insert(ch.draw(len(ops) + 1, "tryat"), ["call_try", {"a": ch.pick(INT_POOL[:2], "trya"), "b": "x"}])
    calls = [i for i, o in enumerate(ops) if o[0] == "call"]
    ops.append(["export_all"])
    order = ch.shuffle(list(range(len(ops))), "reorder")
    return {"profile": "genp", "mode": mode, "seed": seed, "gens": gens, "ops": ops, "reorder": order, "sched": [ch.pick(seams.POLICIES, "policy"), 0]}


NEAR = [0.3, 0.1 + 0.2, 0.30000000000000004, 0.29999999999999993, 1e22, 1e22 + 2e6, 1.0, 1.0000000000000002]


def draw_params(ch, shape):
    if shape == "P0":
        return {}
    if shape == "P5":  # a field that is a number or a string: values that print alike
        return {"tap": ch.pick([1, "1", 2.5, "2.5", "x", 0, "0"], "tap"), "width": ch.pick([None, 1], "width")}
    if shape == "P6":  # an optional field whose default is not None; a nested field made by a default factory
        spec = {"n": ch.pick([0, 1], "n6")}
        load = ch.pick(["omit", None, 4, 5], "load")
        if load != "omit":
            spec["load"] = load
        bias = ch.pick(["omit", {"a": 0, "b": "x"}, {"a": 1, "b": "x"}, {"a": 0, "b": "y"}], "bias")
        if bias != "omit":
            spec["bias"] = bias
        return spec
    few = ch.chance(2, 3)  # small pools make equal parameters frequent
    sp = STR_POOL[:6] if few else STR_POOL
    ip = INT_POOL[:3] if few else INT_POOL
    fp = FLOAT_POOL[:3] if few else FLOAT_POOL
    if shape == "P1":
        return {"a": ch.pick(ip, "a"), "b": ch.pick(sp, "b")}
    if shape == "P2":
        if ch.chance(1, 4):  # unequal floats that agree to many digits
            return {"a": ch.pick([None, "x"], "a"), "b": None, "c": ch.pick(NEAR, "near")}
        if ch.chance(1, 3):  # values built from other parameters' rendered k=v text
            cp = ["x", "x b=y", "y b=z", "z", "None", None]
            return {"a": ch.pick(cp, "a"), "b": ch.pick(cp, "b"), "c": 0.0}
        return {"a": ch.pick([None] + sp, "a"), "b": ch.pick([None] + sp, "b"), "c": ch.pick(fp, "c")}
    if shape == "P3":
        return {"n": {"a": ch.pick(ip, "na"), "b": ch.pick(sp, "nb")}, "e": ch.pick(["RED", "GREEN"], "e"), "s": ch.pick([1, 1000, "1*m", "2.5*K", 0.001, "1000*µ", "1*K", "2500*UNIT", "0.0025*M", 0, 0.0, "0*m", "0*µ", "0.00*K", "2.50*K", "1.0*m"], "s")}
    return {"m": ch.pick(["ma", "mb", "r1", "r2", "x1", "x2", "x1"], "m"), "k": ch.pick(ip, "k")}


class Color(enum.Enum):
    RED = "red"
    GREEN = "green"


class Env:
    """The generators, parameter classes and counters of one run."""

    def __init__(self, h, gens):
        self.h = h
        self.body_runs = {}
        self.attempts = {}
        P1 = h.paramclass(type("P1", (), {"a": h.Param(dtype=int, desc="a"), "b": h.Param(dtype=str, desc="b", default="x")}))
        from typing import Optional

        self.P1_twin = h.paramclass(type("P1", (), {"a": h.Param(dtype=int, desc="a"), "b": h.Param(dtype=str, desc="b", default="x")}))
        P2 = h.paramclass(type("P2", (), {"a": h.Param(dtype=Optional[str], desc="a", default=None), "b": h.Param(dtype=Optional[str], desc="b", default=None), "c": h.Param(dtype=float, desc="c", default=0.0)}))
        P3 = h.paramclass(type("P3", (), {"n": h.Param(dtype=P1, desc="n"), "e": h.Param(dtype=Color, desc="e"), "s": h.Param(dtype=h.Scalar, desc="s")}))
        P4 = h.paramclass(type("P4", (), {"m": h.Param(dtype=h.Instantiable, desc="m"), "k": h.Param(dtype=int, desc="k")}))
        from typing import Union

        P5 = h.paramclass(type("P5", (), {"tap": h.Param(dtype=Union[int, float, str], desc="tap"), "width": h.Param(dtype=Optional[int], desc="width", default=None)}))
        P6 = h.paramclass(
            type(
                "P6",
                (),
                {
                    "n": h.Param(dtype=int, desc="n"),
                    "load": h.Param(dtype=Optional[int], desc="load", default=4),
                    "bias": h.Param(dtype=P1, desc="bias", default_factory=lambda: P1(a=0, b="x")),
                },
            )
        )
        self.P = {"P1": P1, "P2": P2, "P3": P3, "P4": P4, "P0": h.HasNoParams, "P5": P5, "P6": P6}
        ma = h.Module(name="ModA")
        ma.p = h.Port()
        mb = h.Module(name="ModB")
        mb.p = h.Port(width=2)
        XE = h.ExternalModule(name="XE", port_list=[h.Port(name="a")], paramtype=P1, domain="verif")
        # (x1 / x2: one external module called with different parameters)
        self.mods = {"ma": ma, "mb": mb, "r1": h.R(r=1), "r2": h.R(r=2), "x1": XE(P1(a=1, b="x")), "x2": XE(P1(a=2, b="x"))}
        self.gens = []
        for gid, g in enumerate(gens):
            self.gens.append(self.make_gen(gid, g))

        def cyc_a(p):
            return env_self.cyc_b(p)

        def cyc_b(p):
            return env_self.cyc_a(p)

        # a generator that tries optional sub-generators and skips those that fail; both options call
        # it back with the same parameters (refused as circular), so its body must still run once
        self.try_runs = {}

        def try_top(p):
            self.try_runs[pkey(p)] = self.try_runs.get(pkey(p), 0) + 1
            m = h.Module()
            m.p = h.Port()
            for k_, option in enumerate((env_self.try_l, env_self.try_r)):
                try:
                    sub = option(p)
                except RuntimeError:
                    continue
                m.add(sub(p=m.p), name=f"opt{k_}")
            return m

        def try_l(p):
            m = h.Module()
            m.p = h.Port()
            m.t = env_self.try_top(p)(p=m.p)
            return m

        def try_r(p):
            m = h.Module()
            m.p = h.Port()
            m.t = env_self.try_top(p)(p=m.p)
            return m

        for fn, nm in ((try_top, "TryTop"), (try_l, "TryL"), (try_r, "TryR")):
            fn.__name__ = fn.__qualname__ = nm
            fn.__annotations__ = {"p": P1, "return": h.Module}
        self.try_top, self.try_l, self.try_r = h.generator(try_top), h.generator(try_l), h.generator(try_r)

        # a circular dependency that the designer repairs: RcA calls RcB (which calls RcA back) only
        # while `rc_broken` is set; RcUser instantiates RcA
        self.rc_broken = False
        self.rc_runs = 0

        def rc_a(p):
            self.rc_runs += 1
            if self.rc_broken:
                return env_self.rc_b(p)
            m = h.Module()
            m.p = h.Port()
            return m

        def rc_b(p):
            return env_self.rc_a(p)

        def rc_user(p):
            m = h.Module()
            m.p = h.Port()
            m.u = env_self.rc_a(p)(p=m.p)
            return m

        for fn, nm in ((rc_a, "RcA"), (rc_b, "RcB"), (rc_user, "RcUser")):
            fn.__name__ = fn.__qualname__ = nm
            fn.__annotations__ = {"p": P1, "return": h.Module}
        self.rc_a, self.rc_b, self.rc_user = h.generator(rc_a), h.generator(rc_b), h.generator(rc_user)

        env_self = self
        for fn, nm in ((cyc_a, "CycA"), (cyc_b, "CycB")):
            fn.__name__ = fn.__qualname__ = nm
            fn.__annotations__ = {"p": P1, "return": h.Module}
        self.cyc_a = h.generator(cyc_a)
        self.cyc_b = h.generator(cyc_b)

    def params(self, shape, spec):
        h = self.h
        if shape == "P0":
            return h.NoParams
        if shape == "P5":
            return self.P["P5"](**spec)
        if shape == "P1":
            return self.P["P1"](**spec)
        if shape == "P6":
            kw = dict(spec)
            if "bias" in kw:
                kw["bias"] = self.P["P1"](**kw["bias"])
            return self.P["P6"](**kw)
        if shape == "P2":
            return self.P["P2"](**spec)
        if shape == "P3":
            s = spec["s"]
            if isinstance(s, str):
                from decimal import Decimal

                num, pre = s.split("*")
                s = Decimal(num) * getattr(h.prefix, pre)
            return self.P["P3"](n=self.P["P1"](**spec["n"]), e=Color[spec["e"]], s=s)
        return self.P["P4"](m=self.mods[spec["m"]], k=spec["k"])

    def make_gen(self, gid, g):
        h = self.h
        env = self
        P = self.P[g["shape"]]

        def body(p):
            env.attempts[gid] = env.attempts.get(gid, 0) + 1
            key = (gid, pkey(p))
            if g["body"] == "raise_n":
                env.fail_left = getattr(env, "fail_left", {})
                left = env.fail_left.get(key, g["n_fail"])
                if left > 0:
                    env.fail_left[key] = left - 1
                    if g.get("abort"):
                        raise seams.InjectedAbort(f"generator body {gid} is interrupted")
                    raise seams.InjectedFault(f"generator body {gid} fails")
            if g["body"] == "pass":
                inner = env.gens[g["callee"]]
                rv = inner(env.derive(g["callee"], p))
                env.body_runs[key] = env.body_runs.get(key, 0) + 1  # counts completed runs
                return rv
            m = h.Module()
            # (a generator that does not cache may depend on outside state: here, how often it ran)
            m.p = h.Port(width=1 + ((hash64(repr_params(p)) + (0 if g["cache"] else env.attempts[gid])) % 3))
            if g["shape"] == "P3" and g["cache"]:
                # the module's content carries the number it was called with
                m.add(h.R(r=p.s)(p=m.p[0], n=m.p[0]), name="rs")
            if g["body"] == "call":
                inner = env.gens[g["callee"]]
                sub = inner(env.derive(g["callee"], p))
                conns = {}
                for pname, port in sub.ports.items():
                    conns[pname] = m.add(h.Signal(name="w_" + pname, width=port.width))
                m.add(sub(**conns), name="sub")
            env.body_runs[key] = env.body_runs.get(key, 0) + 1  # counts completed runs
            return m

        body.__name__ = f"Gen{gid}"
        body.__qualname__ = f"Gen{gid}"
        body.__annotations__ = {"p": P, "return": h.Module}
        return h.generator(body, enable_cache=g["cache"]) if not g["cache"] else h.generator(body)

    def derive(self, callee, p):
        """Injective map from the caller's parameters to the callee's."""
        shape = None
        for gid, gen in enumerate(self.gens):
            if gid == callee:
                shape = [k for k, v in self.P.items() if v is gen.Params][0]
        tag = repr_params(p)
        if shape == "P0":
            return self.h.NoParams
        if shape == "P5":
            return self.P["P5"](tap=tag, width=None)
        if shape == "P1":
            return self.P["P1"](a=len(tag), b=tag)
        if shape == "P6":
            return self.P["P6"](n=len(tag), load=None, bias=self.P["P1"](a=len(tag), b=tag))
        if shape == "P2":
            return self.P["P2"](a=tag, b=None, c=0.0)
        if shape == "P3":
            return self.P["P3"](n=self.P["P1"](a=len(tag), b=tag), e=Color.RED, s=1)
        return self.P["P4"](m=self.mods["ma"], k=hash64(tag) % (1 << 30))


def pkey(p):
    """Equality of parameter values, field by field: nested param-class instances are compared by
    their fields here, not by whatever `__eq__` the library generated for them; leaf values
    (numbers, strings, enums, Prefixed, modules) use their own equality."""
    import dataclasses

    if dataclasses.is_dataclass(p) and hasattr(p, "__params__"):
        return ("PC", type(p).__name__) + tuple((f.name, pkey(getattr(p, f.name))) for f in dataclasses.fields(p))
    if type(p).__name__ == "Prefixed" and hasattr(p, "number") and hasattr(p, "prefix"):
        # a number: its value, however it is written (1000*µ is 1*m)
        from decimal import Decimal

        return ("NUM", (Decimal(p.number) * Decimal(10) ** p.prefix.value).normalize())
    return p


def repr_params(p):
    import dataclasses

    parts = []
    for f in dataclasses.fields(p):
        v = getattr(p, f.name)
        if dataclasses.is_dataclass(v) and hasattr(v, "__params__"):
            parts.append(f"{f.name}=<{repr_params(v)}>")
        elif type(v).__name__ == "Prefixed" and hasattr(v, "number") and hasattr(v, "prefix"):
            # equal parameters must render equally: 1000*UNIT is 1*KILO
            from decimal import Decimal

            parts.append(f"{f.name}=#{(Decimal(v.number) * Decimal(10) ** v.prefix.value).normalize():f}")
        elif hasattr(v, "name") and not isinstance(v, (str, int, float)):
            parts.append(f"{f.name}=@{v.name}")
        else:
            if isinstance(v, float) and v == 0:
                v = 0.0  # equal parameters must render equally: -0.0 == 0.0
            parts.append(f"{f.name}={v!r}")
    return ";".join(parts)


def exec_calls(arg):
    """Run the ops (optionally re-ordered); returns per-op observations."""
    scn, reordered = arg
    T = template_init()
    h = T["h"]
    seams.set_sched(seams.Sched(scn["sched"][0], scn["sched"][1]))
    keep = []
    if reordered:
        keep.append([object() for _ in range(1234)])
    env = Env(h, scn["gens"])
    ops = scn["ops"]
    order = scn["reorder"] if reordered else list(range(len(ops)))
    obs = [None] * len(ops)
    results = {}  # op index -> module
    model = {}  # (gid, parameter key) -> op index of first successful call
    plain = {}  # parameter key -> one parameter instance with that key (for messages)
    names_seen = {}  # id(module) -> (name, module)
    uncached_results = set()
    reported_runs = set()
    findings = []
    probes = {}

    def probe(n, k=1):
        probes[n] = probes.get(n, 0) + k

    def fail(clause, detail):
        # what happens after a raising body is property C08's clause ("a generator whose body
        # raised is simply run again"); everything else here is C09
        prop = "C08" if clause in ("spurious-circular", "raising-body-not-rerun") else "C09"
        findings.append({"prop": prop, "clause": clause, "detail": [detail]})

    def check_names():
        for mid, (nm, mod) in names_seen.items():
            if mod.name != nm:
                fail("name-changed", f"module first seen as {nm!r} is now named {mod.name!r}")
                names_seen[mid] = (mod.name, mod)

    for i in order:
        op = ops[i]
        if op[0] == "junk":
            keep.append(bytearray(op[1]))
            continue
        if op[0] == "call_try":
            p_ = env.P["P1"](**op[1])
            try:
                t1 = env.try_top(p_)
                l1 = env.try_l(p_)
                t2 = env.try_top(p_)
            except Exception as e:  # noqa
                probe("try_generator_refused:" + interp.norm_exc(e)[0])
                continue
            probe("try_generator_called")
            if env.try_runs.get(pkey(p_), 0) != 1:
                fail("body-ran-twice", f"call #{i}: the body of a generator that catches the refusal of its circular sub-generators ran {env.try_runs.get(pkey(p_))} times for one set of parameters")
            elif t1 is not t2 or l1.t.of is not t1:
                fail("not-memoised", f"call #{i}: equal parameters returned different Modules for a generator that catches the refusal of its circular sub-generators")
            continue
        if op[0] == "call_cycle":
            try:
                env.cyc_a(env.P["P1"](**op[1]))
                probe("genuine_cycle_returned")  # cannot happen; not this profile's business
            except RecursionError:
                probe("genuine_cycle_recursion_error")
                obs[i] = {"raised": "cycle"}
            except Exception as e:  # noqa
                exc = interp.norm_exc(e)
                probe("genuine_cycle_refused" if interp.is_circular_msg(exc) else "genuine_cycle_refused_other_error")
                obs[i] = {"raised": "cycle"}
            # the same with a dependency the designer then repairs: the failed call is simply run
            # again, and so is any other generator that uses it
            p_ = env.P["P1"](**op[1])
            env.rc_broken = True
            try:
                env.rc_a(p_)
                probe("repairable_cycle_returned")  # (memoised by an earlier, repaired call)
            except RecursionError:
                probe("repairable_cycle_recursion_error")
            except Exception:  # noqa
                env.rc_broken = False
                runs = env.rc_runs
                for who, g_ in (("the repaired generator", env.rc_a), ("a generator that instantiates the repaired one", env.rc_user)) if i % 2 else (("a generator that instantiates the repaired one", env.rc_user), ("the repaired generator", env.rc_a)):
                    try:
                        g_(p_)
                        probe("repaired_cycle_retried")
                    except Exception as e:  # noqa
                        exc = interp.norm_exc(e)
                        if interp.is_circular_msg(exc):
                            fail("spurious-circular", f"call #{i}: after a circular dependency was refused and then removed, {who} is still refused: {exc[1][:150]}")
                        else:
                            probe("repaired_cycle_refused:" + exc[0])
                        break
                else:
                    if env.rc_runs == runs:
                        fail("raising-body-not-rerun", f"call #{i}: the generator whose circular dependency was removed was not run again")
            finally:
                env.rc_broken = False
            continue
        if op[0] in ("call", "call_inner_of"):
            gid, spec, form = op[1], op[2], op[3]
            g = scn["gens"][gid]
            try:
                p = env.params(g["shape"], spec)
                if op[0] == "call_inner_of":
                    p = env.derive(g["callee"], p)
                    gid = g["callee"]
                    g = scn["gens"][gid]
                    probe("inner_called_directly")
            except Exception as e:  # noqa
                obs[i] = {"params_invalid": interp.norm_exc(e)[0]}
                continue
            gen = env.gens[gid]
            key = (gid, pkey(p))
            plain[key] = p
            before_runs = env.body_runs.get(key, 0)
            before_attempts = env.attempts.get(gid, 0)
            try:
                if form == "kw":
                    import dataclasses

                    m = gen(**{f.name: getattr(p, f.name) for f in dataclasses.fields(p)})
                elif form == "twin":
                    try:
                        m = gen(env.P1_twin(**spec))
                        probe("foreign_param_class_accepted")
                    except (seams.InjectedFault, seams.InjectedAbort):
                        raise
                    except Exception:  # noqa
                        probe("foreign_param_class_refused")
                        continue
                else:
                    m = gen(p)
            except (seams.InjectedFault, seams.InjectedAbort):
                obs[i] = {"raised": "injected"}
                probe("body_raised")
                if env.attempts.get(gid, 0) == before_attempts:
                    fail("raising-body-not-rerun", f"call #{i}: generator {gid} raised without running its body")
                continue
            except Exception as e:  # noqa
                exc = interp.norm_exc(e)
                obs[i] = {"raised": exc}
                if interp.is_circular_msg(exc):
                    fail("spurious-circular", f"call #{i} to generator {gid}: {exc[1][:150]}")
                else:
                    probe("call_refused:" + exc[0])
                continue
            after_runs = env.body_runs.get(key, 0)
            results[i] = m
            if not g["cache"]:
                uncached_results.add(i)
                probe("uncached_generator_call")
            if g["cache"]:
                if key in model:
                    first = results[model[key]]
                    if m is not first:
                        fail("not-memoised", f"call #{i}: equal parameters {repr_params(p)} returned a different Module than call #{model[key]}")
                    if after_runs != before_runs:
                        fail("body-ran-twice", f"call #{i}: body ran again for equal parameters {repr_params(p)}")
                    probe("memo_hit")
                else:
                    model[key] = i
                    if after_runs != before_runs + 1 and g["body"] != "pass":
                        probe("first_call_body_runs_%d" % (after_runs - before_runs))
                    # distinct from every module returned for unequal parameters of this generator
                    collapses = _collapses(scn["gens"], gid)
                    for (g2, p2), j in model.items():
                        if collapses:
                            break  # a pass-through to a parameter-less generator returns one module by construction
                        if g2 == gid and j != i and results[j] is m:
                            fail("unequal-params-same-module", f"calls #{j} and #{i}: unequal parameters {repr_params(plain[(g2, p2)])} / {repr_params(p)} returned one Module")
                        elif g2 == gid and j != i and results[j].name == m.name:
                            fail("unequal-params-same-name", f"calls #{j} and #{i}: unequal parameters {repr_params(plain[(g2, p2)])} / {repr_params(p)} give one name {m.name!r}")
            check_names()
            # a caching generator's body runs once per parameter value, whoever calls it
            for (g3, p3), n3 in env.body_runs.items():
                if n3 > 1 and scn["gens"][g3]["cache"] and (g3, p3) not in reported_runs:
                    reported_runs.add((g3, p3))
                    fail("body-ran-twice", f"after call #{i}: the body of caching generator {g3} has run {n3} times for {repr_params(plain.get((g3, p3), p3)) if (g3, p3) in plain else p3}")
            names_seen.setdefault(id(m), (m.name, m))
            obs[i] = {"name": m.name, "qual": _qual(h, m)}
            if g["shape"] == "P3" and g["cache"] and g["body"] in ("build", "raise_n"):
                # its package, to be compared with the package the same call gives when the calls
                # are made in another order (equal numbers may be written differently)
                try:
                    import hashlib

                    obs[i]["pkg"] = hashlib.blake2b(h.to_proto(m).SerializeToString(deterministic=True), digest_size=10).hexdigest()
                except Exception as e:  # noqa
                    obs[i]["pkg"] = "exc:" + type(e).__name__
        elif op[0] in ("export_pair", "export_all"):
            if op[0] == "export_pair":
                idx = [op[1], op[2]]
            else:
                idx = sorted(results)
            # a parent that instantiates every result, those of non-caching generators included
            # (fresh modules with equal names by design): refused, or else a closed package
            allmods = []
            for j in idx:
                if j in results and not any(results[j] is x for x in allmods):
                    allmods.append(results[j])
            if any(j in uncached_results for j in idx) and len(allmods) >= 2:
                par = h.Module(name=f"Par{i}")
                for n_, mo in enumerate(allmods):
                    conns_ = {pn: par.add(h.Signal(name=f"w{n_}_{pn}", width=port.width)) for pn, port in mo.ports.items()}
                    par.add(mo(**conns_), name=f"u{n_}")
                try:
                    ppkg = h.to_proto(par)
                except Exception as e:  # noqa
                    probe("parent_export_refused:" + interp.norm_exc(e)[0])
                else:
                    probe("parent_export_with_uncached_results")
                    cvp = netview.closed_violations(ppkg, netview.prim_ports_table(), check_tools=False)
                    if cvp:
                        findings.append({"prop": "C06", "clause": "closed", "detail": cvp[:3] + ["(parent instantiating results of a non-caching generator)"]})
            # results of generators that do not cache are fresh modules with equal names by design
            idx = [j for j in idx if j not in uncached_results]
            mods = []
            for j in idx:
                if j in results and results[j] not in mods:
                    mods.append(results[j])
            if not mods:
                continue
            quals = {}
            clash = None
            for mo in mods:
                q = _qual(h, mo)
                if q in quals and quals[q] is not mo:
                    clash = q
                quals[q] = mo
            try:
                pkg = h.to_proto(mods)
            except Exception as e:  # noqa
                exc = interp.norm_exc(e)
                if clash is not None or "conflicting name" in exc[1]:
                    fail("two-modules-one-name", f"export of calls {idx}: {exc[1][:200]}")
                else:
                    probe("export_refused:" + exc[0])
                check_names()
                continue
            if clash is not None:
                fail("two-modules-one-name", f"export of calls {idx}: two modules exported as {clash!r}")
            cv = netview.closed_violations(pkg, netview.prim_ports_table(), check_tools=False)
            if cv:
                findings.append({"prop": "C06", "clause": "closed", "detail": cv[:3]})
            probe("exports")
            check_names()
    return {"obs": obs, "findings": findings, "probes": probes, "sched": seams.get_sched().stats(), "memo_hits": probes.get("memo_hit", 0)}


def _collapses(gens, gid):
    """A pass-through chain that ends in a parameter-less generator returns one module for all parameters."""
    g = gens[gid]
    if g["shape"] == "P0":
        return True
    if g["body"] != "pass":
        return False
    return _collapses(gens, g["callee"])


def _qual(h, m):
    from hdl21.qualname import qualname

    return qualname(m)


def run(scn):
    res = {"seed": scn.get("seed"), "findings": [], "probes": {}, "n_ops": len(scn["ops"]), "faults": {}}
    a = procs.in_child(exec_calls, (scn, False), timeout=60)
    b = procs.in_child(exec_calls, (scn, True), timeout=60)
    res["findings"] += a["findings"]
    res["probes"] = dict(a["probes"])
    res["sched"] = a["sched"]
    # (d) names independent of call order and allocation history
    cached = [g["cache"] for g in scn["gens"]]
    for i, (oa, ob) in enumerate(zip(a["obs"], b["obs"])):
        if oa and ob and "name" in oa and "name" in ob:
            if oa.get("pkg") != ob.get("pkg"):
                res["findings"].append({"prop": "C12", "clause": "package-depends-on-history", "detail": [f"call #{i} {scn['ops'][i]}: the returned module exports differently when the same calls are made in another order"]})
            if oa["qual"] != ob["qual"]:
                res["findings"].append({"prop": "C09", "clause": "name-depends-on-history", "detail": [f"call #{i} {scn['ops'][i]}: named {oa['qual']!r} in call order, {ob['qual']!r} when the same calls are made in another order"]})
            else:
                res["probes"]["names_compared_across_orders"] = res["probes"].get("names_compared_across_orders", 0) + 1
    res["nontrivial"] = a["memo_hits"] >= 1 or res["probes"].get("body_raised", 0) >= 1
    res["sig"] = hash64(str(scn["gens"]), str(scn["ops"]))
    res["faults"] = {"generator_body_raised": res["probes"].get("body_raised", 0)}
    return res


def execute(scn):
    return run(scn)


def same_failure(f1, f2):
    return f1["prop"] == f2["prop"] and f1["clause"] == f2["clause"]
