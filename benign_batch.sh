#!/bin/bash
# Developer tool: every benign variant (benign/*.diff) against a set of quick checks with a reduced run count.
# usage: benign_batch.sh <runs> <jobs> <props...>   -> one line per (variant, property) on stdout
runs=$1; jobs=$2; shift 2; props="$@"
one() {
  n=$1; runs=$2; shift 2
  wt=/tmp/bx/bw_$n; vc=/tmp/bx/bv_$n
  git -C /repo worktree remove --force $wt 2>/dev/null
  git -C /repo worktree add -q --detach $wt HEAD || { echo "== $n worktree failed"; return; }
  if ! (cd $wt && git apply /verif/benign/$n.diff); then echo "== $n patch does not apply"; git -C /repo worktree remove --force $wt; return; fi
  rm -rf $vc; mkdir -p $vc; (cd /verif && cp -r check sim profiles known_findings.json properties.jsonl replays evidence $vc/); rm -f $vc/replays/C*.json
  for p in "$@"; do
    out=$(cd $vc && VERIF_REPO=$wt timeout 900 /venv/bin/python ./check $p --tier quick --runs $runs 2>&1); rc=$?
    echo "== $n $p rc=$rc $(echo "$out" | grep -E 'runs,' | sed 's/ non-trivial, [0-9]* discarded//' | tr '\n' ' ' | cut -c1-160)"
    if [ $rc -ne 0 ]; then echo "$out" | grep -E "violated clause|^\[C[0-9]+\]   |VIOLATION|HARNESS|Error" | head -12; fi
  done
  git -C /repo worktree remove --force $wt; rm -rf $vc
}
export -f one
mkdir -p /tmp/bx
ls /verif/benign/${BENIGN_GLOB:-*}.diff | xargs -n1 basename | sed 's/.diff$//' | xargs -P $jobs -I{} bash -c "one {} $runs $props"
