#!/venv/bin/python
"""Regenerates MANIFEST.json from the table below (kept in one place so it stays valid)."""
import json, sys
sys.path.insert(0, "/verif")
from sim.checks import PROPS

LEVEL = {
 "C01": ("Seeded exploration: generated valid design programs are built through Hdl21's public API under a scheduler-controlled set-iteration order and drawn elaboration histories; the exported package (read twice: protobuf and SPICE text) must have exactly the leaf devices and net partition an independent reference model assigns to the program. The check also runs the reconnection-history, adversarial-name and failure-history workloads, because a wrong package after such a history is a connectivity violation too. Sampling, not proof; the right level because the failure modes are design-specific and the input space is unbounded.", "5 (C01)", "seeded deterministic simulation: scheduler-ordered set iteration + history prefixes; reference connectivity model as oracle; delta-debugged replay files"),
 "C02": ("Seeded exploration with planted design faults: one ill-formedness of each class of the property is planted at a drawn site of a valid generated design (optionally after valid sub-modules were elaborated earlier); to_proto / netlist / elaborate must raise. The reference model re-judges every mutant so only genuinely ill-formed ones count.", "5 (C02)", "seeded deterministic simulation with planted design faults; reference-model re-judgement; history prefixes"),
 "C04": ("Seeded exploration of connection-operation histories (connect by call / setattr / connect(), replace, disconnect) against a dict model of the current port map, with a live cross-invariant after every operation and the partition oracle at the end.", "5 (C04)", "seeded operation histories against a sequential reference model, scheduler-ordered set iteration"),
 "C05": ("Seeded exploration with designer names drawn from the elaborator's own naming rules, in drawn declaration orders and set-iteration schedules; every designer signal / instance must survive with its own net, checked by the partition oracle with name-agnostic matching of invented names.", "5 (C05)", "seeded deterministic simulation with adversarial names; reference connectivity model"),
 "C06": ("Closedness monitor run on every package produced by the conn / hist / gen workloads and by sessions over the repository's examples and built-in generators; from_proto and the spice / spectre netlisters must accept each package.", "5 (C06)", "runtime invariant (closedness monitor) evaluated inside seeded simulated sessions"),
 "C07": ("Seeded exploration of elaboration histories: sessions of elaborate / to_proto / netlist calls in drawn orders and groupings over a DAG library; every returned package must be byte-identical to the one a pristine forked process gives for the same design; includes same-named unrelated modules, late additions that must be refused, and (second workload) histories that contain failed calls.", "5 (C07)", "seeded session histories with a fresh-process differential oracle (fork of a pristine template)"),
 "C08": ("Fault injection: exceptions injected at every (pass position, module) through custom pass lists, inside rewriting passes, by planted design faults, followed by drawn continuations (retry unchanged, remove the cause and retry, unrelated design, sibling design, the parent edited in place, a brand-new parent of a good sub-module); later calls must equal a fresh process or raise the original error, never a spurious circular-dependency error and never a half-rewritten package.", "5 (C08)", "deterministic fault injection at pass boundaries / mid-rewrite / generator bodies; fresh-process differential oracle; bounded-recovery liveness"),
 "C09": ("Seeded exploration of generator call histories against a dict model (identity, body-run counts, name stability, name distinctness, order/process independence).", "5 (C09)", "seeded call histories with raising bodies against a sequential model; cross-process differential"),
 "C12": ("Each generated design is exported in several pristine children that differ only in the scheduler's set-iteration keys, junk allocation and unrelated earlier elaboration; bytes and netlist text must be identical. A second layer runs real interpreters under different PYTHONHASHSEED values.", "5 (C12)", "seeded schedule search over set-iteration orders (SimSet seam) + real-interpreter hash-seed / allocation perturbation"),
 "C15": ("Seeded sessions over the PDK registry (registration order, default, compile by default / name / module, repeated and multi-PDK compilation) with before/after snapshots and an independent table selector; sampling of device tables, not the exhaustive reading.", "5 (C15)", "seeded session histories over PDK registry and device-call caches with snapshot oracle"),
 "C18": ("Seeded edit histories (setattr / add / get, rejected operations, scheduler-placed elaboration) on one Module or Bundle against a dict model checked after every operation; final export equals the class-style definition of the model's content.", "5 (C18)", "seeded operation histories against a sequential reference model"),
}
NA = {
 "C03": "pure function of (width, index): no schedule, history, fault or configuration enters _slice_inner / width / _list_slice; deciding it is input enumeration, a different technique (DESIGN section 6)",
 "C10": "the direction/name rule is a parity-and-role function of a bundle tree computed by one pure recursion; nothing for a simulator to schedule or fault (DESIGN section 6)",
 "C11": "to_proto after from_proto composes two stateless translations of an immutable value (DESIGN section 6)",
 "C13": "parameter export is a type dispatch on a value; no state, order or fault involved (DESIGN section 6)",
 "C14": "Prefixed arithmetic and comparison are pure functions of two decimals (DESIGN section 6)",
 "C16": "flatten() is a pure recursive walk over an already elaborated design; its only stateful step, elaborate, is covered by C07/C08 (DESIGN section 6)",
 "C17": "Sim export maps data objects to protobuf messages; the one stateful step (co-elaboration of testbenches) is C07's subject (DESIGN section 6)",
 "C19": "the built-in topologies are closed-form functions of (unit, series pair, n); their stateful aspects (generator cache, renaming) are C09's (DESIGN section 6)",
}
PENDING = "claimed in DESIGN.md; its check is not built yet in this commit, so it is not claimed here yet"
ALL = [f"C{i:02d}" for i in range(1, 20)]
checks = []
for p in ALL:
    if p in PROPS:
        text, ref, tech = LEVEL[p]
        checks.append({
            "property_id": p,
            "quick_cmd": f"timeout 900 /venv/bin/python /verif/check {p} --tier quick",
            "thorough_cmd": f"timeout 3300 /venv/bin/python /verif/check {p} --tier thorough",
            "evidence_file": f"/verif/evidence/{p}.json",
            "replay_cmd_template": "/venv/bin/python /verif/check replay {path}",
            "engine": "hdl21-dsim",
            "level_claimed": {"category": "exploration", "text": text, "design_ref": "DESIGN.md section " + ref},
            "level_note": "; ".join(PROPS[p]["assumptions"]),
            "technique": tech,
        })
na = [{"property_id": p, "reason": NA[p]} for p in ALL if p in NA]
na += [{"property_id": p, "reason": PENDING} for p in ALL if p not in NA and p not in PROPS]
m = {
 "version": 1,
 "setup_cmd": "/venv/bin/python /verif/check selftest",
 "hooks": {"guard": "HDL21_VERIF", "enable": "no source hooks: seams are installed from /verif after import (SimSet on connectable back-reference sets; public Elaborator pass lists for faults)", "baseline_off_cmd": "cd /repo && /venv/bin/python -m pytest -ra -q -p no:cacheprovider --timeout=900 --continue-on-collection-errors", "source_commits": [], "add_only": True},
 "engines": [{"name": "hdl21-dsim", "path": "/verif/sim", "serves_properties": sorted(PROPS), "kind_free_text": "deterministic simulation harness: seeded scenario generation, pristine forked children, scheduler-ordered set iteration, fault passes, reference models, delta-debugging minimiser"}],
 "checks": checks,
 "not_applicable": sorted(na, key=lambda d: d["property_id"]),
 "notes": "Repairs of genuine defects are 'fix:' commits in /repo, listed in /verif/known_findings.json; see DESIGN.md section 8.",
}
json.dump(m, open("/verif/MANIFEST.json", "w"), indent=1)
print("claimed", [c["property_id"] for c in checks])
