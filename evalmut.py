#!/venv/bin/python
"""Developer tool: confirm a seeded change and run the checks against it.

usage: evalmut.py <name> [--props C01,C07,...] [--tier quick] [--seed N] [--no-checks]
       (--no-checks: confirm and keep only; matrix.py --only <name> then runs the checks in scratch copies)

 1. in a scratch worktree of /repo HEAD: the demo passes; with the patch applied the
    unedited test suite still passes and the demo fails
 2. apply the patch to /repo, run the named checks (default: the property's own), undo
 3. store patch, demo and meta.json under /verif/seeded/<name>/
"""
import json
import os
import shutil
import subprocess
import sys
import time

MUT = "/tmp/mut"
SEEDED = "/verif/seeded"


def sh(cmd, cwd=None, timeout=1800, env=None):
    p = subprocess.run(cmd, shell=True, cwd=cwd, capture_output=True, text=True, timeout=timeout, env=env)
    return p.returncode, p.stdout + p.stderr


def main():
    name = sys.argv[1]
    args = sys.argv[2:]
    tier = args[args.index("--tier") + 1] if "--tier" in args else "quick"
    seed = args[args.index("--seed") + 1] if "--seed" in args else "0"
    diff = f"{MUT}/{name}.diff"
    kept = f"{SEEDED}/{name}"
    from_kept = not os.path.exists(f"{MUT}/{name}/demo_{name}.py")
    if from_kept:  # the scratch worktree is gone: use the kept copy
        diff = f"{kept}/patch.diff"
        meta_in = json.load(open(f"{kept}/meta.json"))
    else:
        meta_in = json.load(open(f"{MUT}/{name}.json")) if os.path.exists(f"{MUT}/{name}.json") else {}
    prop = meta_in.get("property", name[:3])
    props = args[args.index("--props") + 1].split(",") if "--props" in args else [prop]
    demo = f"{kept}/demo_{name}.py" if from_kept else f"{MUT}/{name}/demo_{name}.py"
    out = {"name": name, "property": prop, "summary": meta_in.get("summary"), "needs": meta_in.get("needs"), "files": meta_in.get("files")}

    # 1. confirmation in a fresh scratch worktree
    wt = f"/tmp/mutv/{name}"
    os.makedirs("/tmp/mutv", exist_ok=True)
    sh(f"git -C /repo worktree remove --force {wt}")
    rc, o = sh(f"git -C /repo worktree add -q --detach {wt} HEAD")
    assert rc == 0, o
    try:
        shutil.copy(demo, f"{wt}/demo_{name}.py")
        # the demo refers to its own worktree path: rewrite to the confirmation worktree
        txt = open(f"{wt}/demo_{name}.py").read().replace(f"{MUT}/{name}", wt)
        open(f"{wt}/demo_{name}.py", "w").write(txt)
        rc0, o0 = sh(f"/venv/bin/python demo_{name}.py", cwd=wt, timeout=600)
        out["demo_passes_without_change"] = rc0 == 0
        rca, oa = sh(f"git apply {diff}", cwd=wt)
        out["patch_applies"] = rca == 0
        if rca != 0:
            out["apply_error"] = oa[-500:]
        rct, ot = sh("/venv/bin/python -m pytest -q -p no:cacheprovider 2>&1 | tail -1", cwd=wt, timeout=1200)
        out["tests_line"] = ot.strip()[-120:]
        out["tests_pass"] = "224 passed, 4 skipped, 8 xfailed, 1 xpassed" in ot
        rc1, o1 = sh(f"/venv/bin/python demo_{name}.py", cwd=wt, timeout=600)
        out["demo_fails_with_change"] = rc1 != 0
        out["demo_failure_tail"] = o1.strip()[-400:]
    finally:
        sh(f"git -C /repo worktree remove --force {wt}")
    print(json.dumps({k: out[k] for k in ("demo_passes_without_change", "patch_applies", "tests_pass", "tests_line", "demo_fails_with_change")}))
    confirmed = out["demo_passes_without_change"] and out.get("patch_applies") and out["tests_pass"] and out["demo_fails_with_change"]
    out["confirmed"] = bool(confirmed)

    # 2. the checks against it
    results = {}
    if out.get("patch_applies") and "--no-checks" not in args:
        rc, o = sh("git -C /repo status --short")
        assert not o.strip(), "/repo is not clean: " + o
        rc, o = sh(f"git -C /repo apply {diff}")
        assert rc == 0, o
        try:
            for p in props:
                t0 = time.time()
                env = dict(os.environ, VERIF_SEED=seed)
                rc, o = sh(f"/venv/bin/python /verif/check {p} --tier {tier}", cwd="/verif", timeout=3600, env=env)
                viol = [l for l in o.split("\n") if l.startswith("VIOLATION")]
                clause = [l for l in o.split("\n") if "violated clause" in l]
                results[p] = {"rc": rc, "violation": viol[:1], "clause": clause[:1], "wall_s": round(time.time() - t0, 1), "tail": o.strip().split("\n")[-3:] if rc not in (0, 1) else None}
                print(p, json.dumps(results[p])[:400])
        finally:
            sh("git -C /repo checkout -- .")
            rc, o = sh("git -C /repo status --short")
            assert not o.strip(), o
    out["checks"] = results
    out["detected_by"] = [p for p, r in results.items() if r["rc"] == 1]
    out["ran"] = f"evalmut.py {name} --props {','.join(props)} --tier {tier} --seed {seed}"

    # 3. keep it
    d = f"{SEEDED}/{name}"
    os.makedirs(d, exist_ok=True)
    if not from_kept:
        shutil.copy(diff, f"{d}/patch.diff")
        shutil.copy(demo, f"{d}/demo_{name}.py")
    prev = {}
    if os.path.exists(f"{d}/meta.json"):
        prev = json.load(open(f"{d}/meta.json"))
    hist = prev.get("history", [])
    hist.append({"ran": out["ran"], "detected_by": out["detected_by"], "checks": results})
    out["history"] = hist
    json.dump(out, open(f"{d}/meta.json", "w"), indent=1)
    print("confirmed:", out["confirmed"], "detected_by:", out["detected_by"])


if __name__ == "__main__":
    main()
