#!/bin/bash
# Soak: every quick check under many VERIF_SEED values; prints one line per (seed, property).
# usage: soak.sh <first seed> <last seed> [props...]
cd "$(dirname "$0")"
export VERIF_REPO=${VP_RUN_REPO:-/repo}
first=$1; last=$2; shift 2
props=${@:-C01 C02 C04 C05 C06 C07 C08 C09 C12 C15 C18}
for seed in $(seq $first $last); do
  for p in $props; do
    out=$(VERIF_SEED=$seed timeout 900 /venv/bin/python ./check $p --tier quick 2>&1)
    rc=$?
    echo "seed=$seed prop=$p rc=$rc $(echo "$out" | grep -E 'runs,' | tr '\n' ' ' | cut -c1-200)"
    if [ $rc -ne 0 ]; then echo "$out" | tail -60; fi
  done
done
