#!/venv/bin/python
"""Developer tool: the detection matrix - every kept seeded change against the quick check of
the property it was written against (and optionally others), in scratch copies.

usage: matrix.py [--jobs 3] [--seed 0] [--only C01a,C02b] [--props-extra C06]

Each job makes a scratch worktree of /repo HEAD with the patch applied and a scratch copy of
/verif (so evidence and replays of the real tree are not touched), runs
`VERIF_REPO=<worktree> ./check <PROP> --tier quick`, records rc / clause, removes both.
Writes /verif/seeded/MATRIX.json.
"""
import json
import os
import shutil
import subprocess
import sys
import time
from concurrent.futures import ThreadPoolExecutor

SEEDED = "/verif/seeded"
SCR = "/tmp/mx"


def sh(cmd, cwd=None, timeout=3600, env=None):
    p = subprocess.run(cmd, shell=True, cwd=cwd, capture_output=True, text=True, timeout=timeout, env=env)
    return p.returncode, p.stdout + p.stderr


def job(name, seed, extra):
    meta = json.load(open(f"{SEEDED}/{name}/meta.json"))
    prop = meta.get("property", name[:3])
    wt, vc = f"{SCR}/{name}/repo", f"{SCR}/{name}/verif"
    os.makedirs(f"{SCR}/{name}", exist_ok=True)
    sh(f"git -C /repo worktree remove --force {wt}")
    rc, o = sh(f"git -C /repo worktree add -q --detach {wt} HEAD")
    out = {"name": name, "property": prop, "checks": {}}
    try:
        if rc != 0:
            out["error"] = o[-300:]
            return out
        rc, o = sh(f"git apply {SEEDED}/{name}/patch.diff", cwd=wt)
        if rc != 0:
            out["error"] = "patch does not apply: " + o[-300:]
            return out
        sh(f"rm -rf {vc}; mkdir -p {vc}; cd /verif && cp -r check sim profiles known_findings.json properties.jsonl replays evidence {vc}/ 2>/dev/null; rm -f {vc}/replays/C*.json")
        for p in [prop] + [e for e in extra if e != prop]:
            t0 = time.time()
            env = dict(os.environ, VERIF_SEED=str(seed), VERIF_REPO=wt)
            rc, o = sh(f"/venv/bin/python ./check {p} --tier quick", cwd=vc, env=env)
            clause = [l.split("violated clause:")[-1].strip() for l in o.split("\n") if "violated clause" in l]
            out["checks"][p] = {"rc": rc, "clause": clause[:1], "wall_s": round(time.time() - t0, 1), "tail": o.strip().split("\n")[-3:] if rc not in (0, 1) else None}
    finally:
        sh(f"git -C /repo worktree remove --force {wt}")
        shutil.rmtree(f"{SCR}/{name}", ignore_errors=True)
    out["detected_by"] = [p for p, r in out["checks"].items() if r["rc"] == 1]
    print(name, prop, out.get("detected_by"), out.get("error", ""), {p: (r["rc"], r["clause"]) for p, r in out["checks"].items()}, flush=True)
    return out


def main():
    args = sys.argv[1:]
    jobs = int(args[args.index("--jobs") + 1]) if "--jobs" in args else 3
    seed = int(args[args.index("--seed") + 1]) if "--seed" in args else 0
    only = args[args.index("--only") + 1].split(",") if "--only" in args else None
    extra = args[args.index("--props-extra") + 1].split(",") if "--props-extra" in args else []
    names = sorted(n for n in os.listdir(SEEDED) if os.path.isdir(f"{SEEDED}/{n}") and (only is None or n in only))
    obsolete = [n for n in names if json.load(open(f"{SEEDED}/{n}/meta.json")).get("obsolete")]
    names = [n for n in names if n not in obsolete]
    with ThreadPoolExecutor(jobs) as ex:
        res = list(ex.map(lambda n: job(n, seed, extra), names))
    head = subprocess.run("git -C /repo rev-parse --short HEAD", shell=True, capture_output=True, text=True).stdout.strip()
    summary = {"repo_head": head, "seed": seed, "n": len(res), "caught_by_own_check": sum(1 for r in res if r["property"] in r.get("detected_by", [])), "not_caught": [r["name"] for r in res if r["property"] not in r.get("detected_by", [])], "obsolete": obsolete, "errors": [r["name"] for r in res if r.get("error")], "results": res}
    if only is None:
        json.dump(summary, open(f"{SEEDED}/MATRIX.json", "w"), indent=1)
    print(json.dumps({k: summary[k] for k in ("repo_head", "seed", "n", "caught_by_own_check", "not_caught", "obsolete", "errors")}))
    shutil.rmtree(SCR, ignore_errors=True)


if __name__ == "__main__":
    main()
