#!/bin/bash
# Developer tool: re-base kept patches (seeded/*/patch.diff, benign/*.diff) that no longer apply to
# /repo HEAD, via 3-way merge in a scratch worktree.  Conflicts are reported and left for hand work.
wt=/tmp/bx/rebase_wt
mkdir -p /tmp/bx
git -C /repo worktree remove --force $wt 2>/dev/null
git -C /repo worktree add -q --detach $wt HEAD
cd $wt
for f in /verif/seeded/C*/patch.diff /verif/benign/N*.diff /verif/benign/B*.diff; do
  git reset -q --hard HEAD
  git apply --check $f 2>/dev/null && continue
  name=$(echo $f | sed 's#/verif/##')
  if [ -f $(dirname $f)/meta.json ] && grep -q '"obsolete"' $(dirname $f)/meta.json; then echo "obsolete $name"; continue; fi
  if git apply --3way $f >/dev/null 2>&1 && ! grep -rq "<<<<<<<" hdl21 pdks; then
    git reset -q
    t=$(/venv/bin/python -m pytest -q -p no:cacheprovider 2>&1 | tail -1 | cut -c1-48)
    case "$f" in */patch.diff) [ -f $(dirname $f)/patch.orig.diff ] || cp $f $(dirname $f)/patch.orig.diff;; esac
    git add -A hdl21 pdks; git diff --cached HEAD -- hdl21 pdks > $f; git reset -q
    echo "rebased $name ($t)"
  else
    echo "CONFLICT $name: $(git diff --name-only --diff-filter=U | tr '\n' ' ')"
  fi
done
git reset -q --hard HEAD
cd /verif
git -C /repo worktree remove --force $wt
