#!/bin/bash
# Every thorough check once (VERIF_SEED honoured); one line per property.
cd "$(dirname "$0")"
export VERIF_REPO=${VP_RUN_REPO:-/repo}
props=${@:-C01 C02 C04 C05 C06 C07 C08 C09 C12 C15 C18}
for p in $props; do
  out=$(timeout 7200 /venv/bin/python ./check $p --tier thorough 2>&1)
  rc=$?
  echo "prop=$p rc=$rc $(echo "$out" | grep -E 'runs,|post stage' | tr '\n' ' ' | cut -c1-600)"
  if [ $rc -ne 0 ]; then echo "$out" | tail -60; fi
done
