#!/venv/bin/python
"""Developer tool: cluster findings / rejections of a profile and print minimised programs.
usage: triage.py <profile> <mode> <n_runs> [--seed N] [--reject]"""
import sys, json, collections
sys.path.insert(0, "/verif")
sys.path.insert(0, __import__("os").environ.get("VERIF_REPO", "/repo"))
from sim import procs, driver, pretty, minimise
from sim.choices import hash64

def main():
    pname, mode, n = sys.argv[1], sys.argv[2], int(sys.argv[3])
    vseed = int(sys.argv[sys.argv.index("--seed") + 1]) if "--seed" in sys.argv else 0
    want_reject = "--reject" in sys.argv
    procs.template_init(with_pdks=(pname == "pdk"))
    P = driver.profile_mod(pname)
    seeds = [hash64(vseed, "triage", pname, mode, i) % (1 << 48) for i in range(n)]
    res = procs.run_pool(driver._job, [(pname, mode, s, None) for s in seeds])
    clusters = collections.OrderedDict()
    cnt = collections.Counter()
    for r in res:
        if "harness_error" in r:
            cnt["harness"] += 1
            clusters.setdefault(("harness", r["harness_error"][-300:]), []).append(r)
            continue
        if r.get("discard"):
            cnt["discard"] += 1
            clusters.setdefault(("discard", str(r["discard"])[:80]), []).append(r)
            continue
        if r.get("rejected"):
            cnt["rejected"] += 1
            if want_reject:
                clusters.setdefault(("rejected", r["rejected"][0] + ":" + r["rejected"][1][:60]), []).append(r)
            continue
        if r["findings"]:
            cnt["violation"] += 1
            for f in r["findings"]:
                clusters.setdefault((f["prop"], f["clause"]), []).append(r)
        else:
            cnt["ok"] += 1
    print(cnt)
    for key, rs in clusters.items():
        print("=" * 100)
        print(len(rs), key)
        r = rs[0]
        if key[0] in ("harness",):
            print(r["harness_error"]); continue
        scn = P.generate(r["seed"], mode)
        if key[0] == "discard":
            print(r["discard"]); continue
        if key[0] == "rejected":
            def test(ops, want=r["rejected"]):
                c = dict(scn); c["ops"] = ops
                if c["top"] not in {o[1] for o in ops if o[0]=="module"}: return False
                try: rr = procs.in_child(P.execute, c, timeout=30)
                except procs.ChildFailure: return False
                return rr.get("rejected") is not None and rr["rejected"][0] == want[0] and rr["rejected"][1][:30] == want[1][:30]
            ops, st = minimise.minimise(scn["ops"], test, 15)
            print(r["rejected"]); print(st)
            print("\n".join(pretty.program(ops)))
            continue
        f = [f for f in r["findings"] if (f["prop"], f["clause"]) == key][0]
        if pname in ("examples", "ns", "gen", "pdk"):
            print(f["detail"]); print(json.dumps(scn["ops"])[:1500]); continue
        small, st = driver.minimise_violation(pname, scn, f, 15)
        print(f["detail"]); print(st, small.get("sched"))
        print("\n".join(pretty.program(small["ops"])))

main()
